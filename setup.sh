#!/bin/bash
# Offline set-up: overlay venv on /venv (sees numpy/pandas + /repo) with z3-solver from the local wheelhouse.
set -e
cd "$(dirname "$0")"
if [ ! -x .venv/bin/python ] || ! .venv/bin/python -c "import z3, numpy" 2>/dev/null; then
  rm -rf .venv
  /venv/bin/python -m venv .venv
  SP=$(.venv/bin/python -c "import sysconfig; print(sysconfig.get_paths()['purelib'])")
  printf '/venv/lib/python3.12/site-packages\n/repo\n' > "$SP/overlay.pth"
  PIP_NO_INDEX=1 .venv/bin/pip install -q --no-index --find-links /opt/veriftools/wheels z3-solver >/dev/null
fi
.venv/bin/python -c "import z3, numpy; print('symx venv ok: z3', z3.get_version_string(), 'numpy', numpy.__version__)"
