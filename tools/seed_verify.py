#!/usr/bin/env python3
"""Verify a seeded change in a scratch worktree and record which checks catch it.
usage: seed_verify.py <name> <patch|rev:commit[,commit]> <demo.py|-> <property> <checks,comma> "<what it needs>"
Writes /verif/seeded/<name>/{patch.diff, demo.py, meta.json}. Never touches /repo's working tree."""
import json, os, shutil, subprocess, sys, tempfile
name, patch, demo, prop, checks, needs = sys.argv[1:7]
ROOT = "/verif"
wt = tempfile.mkdtemp(prefix="seedwt-", dir="/tmp")
os.rmdir(wt)
run = lambda cmd, **k: subprocess.run(cmd, shell=True, capture_output=True, text=True, **k)
meta = dict(name=name, property=prop, needs=needs, ran=[])
try:
    assert run(f"git -C /repo worktree add -q --detach {wt} HEAD").returncode == 0
    dst = os.path.join(ROOT, "seeded", name)
    os.makedirs(dst, exist_ok=True)
    if patch.startswith("rev:"):
        r = run(" | ".join([f"git -C /repo show {c}" for c in patch[4:].split(",")][:1]) + f" | git -C {wt} apply -R")
        for c in patch[4:].split(",")[1:]:
            r = run(f"git -C /repo show {c} | git -C {wt} apply -R")
        meta["origin"] = f"reverse of fix commit(s) {patch[4:]} (the defect the check first reported on the original tree)"
    else:
        r = run(f"git -C {wt} apply {patch}")
        meta["origin"] = "independent sub-agent (given only the property text and a scratch worktree)"
    assert r.returncode == 0, r.stderr
    open(os.path.join(dst, "patch.diff"), "w").write(run(f"git -C {wt} diff").stdout)
    t = run(f"cd {wt} && /venv/bin/python -m pytest -q -p no:cacheprovider 2>&1 | tail -1")
    meta["suite_with_change"] = t.stdout.strip()
    meta["ran"].append("pytest (55 tests) in the scratch worktree with the change applied")
    if demo != "-":
        shutil.copy(demo, os.path.join(dst, "demo.py"))
        d1 = run(f"cd {wt} && PYTHONPATH={wt} /venv/bin/python {demo}")
        meta["demo_with_change"] = dict(exit=d1.returncode, last=(d1.stdout.strip().splitlines() or [""])[-1][:300])
        d0 = run(f"cd /repo && PYTHONPATH=/repo /venv/bin/python {demo}")
        meta["demo_without_change"] = dict(exit=d0.returncode, last=(d0.stdout.strip().splitlines() or [""])[-1][:300])
        meta["ran"].append("demo with the change (must fail) and on the unchanged tree (must pass)")
    out = tempfile.mkdtemp(prefix="seedout-", dir="/tmp")
    meta["checks"] = {}
    for cid in checks.split(","):
        c = run(f"cd {ROOT} && SYMX_REPO={wt} SYMX_OUT={out} timeout 1500 ./check {cid} --tier quick")
        lines = [l for l in c.stdout.splitlines() if l.startswith(("VIOLATION", "[", "INCONCLUSIVE"))]
        meta["checks"][cid] = dict(exit=c.returncode, verdict=("VIOLATION" if c.returncode == 1 else "held" if c.returncode == 0 else "inconclusive"),
                                   summary=[l[:200] for l in lines[:3]])
        meta["ran"].append(f"SYMX_REPO=<worktree> ./check {cid} --tier quick")
    shutil.rmtree(out, ignore_errors=True)
    try:      # keep hand-recorded thorough-tier results across re-verification
        old = json.load(open(os.path.join(dst, "meta.json")))
        if old.get("thorough_note"):
            meta["thorough_note"] = old["thorough_note"]
        for k, v in old.get("checks", {}).items():
            if "thorough" in k:
                meta["checks"][k] = v
    except (OSError, ValueError):
        pass
    json.dump(meta, open(os.path.join(dst, "meta.json"), "w"), indent=1)
    print(name, meta.get("suite_with_change"), meta.get("demo_with_change", {}).get("exit"), meta.get("demo_without_change", {}).get("exit"),
          {k: v["verdict"] for k, v in meta["checks"].items()})
finally:
    run(f"git -C /repo worktree remove --force {wt}")
