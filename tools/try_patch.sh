#!/bin/bash
# tools/try_patch.sh <patch-file | rev:<commit>> <tier> <property ids...>
# applies a change to /repo, runs the named checks, and always restores /repo afterwards
cd "$(dirname "$0")/.."
P="$1"; TIER="$2"; shift 2
if [ -n "$(git -C /repo status --porcelain --untracked-files=no)" ]; then echo "/repo not clean"; exit 9; fi
if [[ "$P" == rev:* ]]; then
  git -C /repo show "${P#rev:}" | git -C /repo apply -R || { echo "cannot reverse-apply"; exit 9; }
else
  git -C /repo apply "$P" || { echo "cannot apply"; exit 9; }
fi
trap 'git -C /repo checkout -- .' EXIT
for id in "$@"; do
  out=$(./check "$id" --tier "$TIER" 2>&1); rc=$?
  echo "== $id rc=$rc"; echo "$out" | grep -E "^(VIOLATION|KNOWN-FINDING|INCONCLUSIVE|\[)" | head -6
done
