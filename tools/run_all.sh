#!/bin/bash
# run every check of a tier on /repo and report; evidence files are rewritten by the checks themselves
cd "$(dirname "$0")/.."
TIER=${1:-quick}
shift
IDS=${@:-C01 C02 C03 C04 C05 C06 C07 C08 C09 C10 C11 C12 C13 C14 C15 C16 C17 C18 C19 C20}
for id in $IDS; do
  s=$(date +%s); out=$(timeout ${TMO:-7000} ./check $id --tier $TIER 2>&1); rc=$?; e=$(date +%s)
  echo "$id rc=$rc $((e-s))s $(echo "$out" | grep -E '^\[' | cut -c1-200)"
  echo "$out" | grep -E "^(VIOLATION|INCONCLUSIVE)" | head -3 | cut -c1-300
done
