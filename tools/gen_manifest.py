#!/usr/bin/env python3
"""Regenerate MANIFEST.json from the harness registry (tools/registry.json) and properties.jsonl."""
import json, os
ROOT = os.path.dirname(os.path.dirname(os.path.abspath(__file__)))
reg = json.load(open(os.path.join(ROOT, "tools", "registry.json")))
props = [json.loads(l) for l in open(os.path.join(ROOT, "properties.jsonl"))]
checks = []
na = []
for p in props:
    pid = p["id"]
    r = reg.get(pid)
    if not r or r.get("not_applicable"):
        na.append({"property_id": pid, "reason": (r or {}).get("not_applicable", "harness not built yet in this round (work in progress; see DESIGN.md section 4)")})
        continue
    c = {
        "property_id": pid,
        "quick_cmd": f"./check {pid} --tier quick",
        "thorough_cmd": f"./check {pid} --tier thorough",
        "evidence_file": f"/verif/evidence/{pid}.json",
        "replay_cmd_template": f"./check {pid} --replay {{path}}",
        "engine": "symx",
        "level_claimed": {"category": "other", "text": r["level_text"], "design_ref": r.get("design_ref", "DESIGN.md section 4")},
        "level_note": r["level_note"],
        "technique": r.get("technique", "bounded symbolic execution of the real Python source (symx) + z3 SMT; counterexamples replayed on the real code"),
    }
    checks.append(c)
m = {
    "version": 1,
    "setup_cmd": "./setup.sh",
    "hooks": {"guard": "SHANGRLA_VERIF", "enable": "no hooks: the checks load /repo's current sources unchanged through symx.loader (imports redirected to models)",
              "baseline_off_cmd": "cd /repo && /venv/bin/python -m pytest -ra -q -p no:cacheprovider --timeout=900 --continue-on-collection-errors",
              "source_commits": [], "add_only": True},
    "engines": [{"name": "symx", "path": "/verif/symx", "serves_properties": [c["property_id"] for c in checks],
                 "kind_free_text": "in-house per-path symbolic executor for Python (proxy values + DFS forking + z3), with a validated numpy/builtins model; solver-based, bounded"}],
    "checks": checks,
    "notes": "All checks: exit 0 held / exit 1 VIOLATION after replay on the real code / exit 3 inconclusive (never reported as success). "
             "Bounds per property are in the evidence files and DESIGN.md.",
    "not_applicable": na,
}
json.dump(m, open(os.path.join(ROOT, "MANIFEST.json"), "w"), indent=1)
print("claimed", [c["property_id"] for c in checks], "not_applicable", [n["property_id"] for n in na])
