#!/bin/bash
# verify every seeded change listed in tools/seed_list.tsv, N at a time
cd "$(dirname "$0")/.."
N=${1:-3}
grep -v '^#' tools/seed_list.tsv | while IFS=$'\t' read -r name patch demo prop checks needs; do
  echo "$name"$'\t'"$patch"$'\t'"$demo"$'\t'"$prop"$'\t'"$checks"$'\t'"$needs"
done | xargs -P "$N" -d '\n' -I{} bash -c 'IFS=$'"'"'\t'"'"' read -r a b c d e f <<< "{}"; python3 tools/seed_verify.py "$a" "$b" "$c" "$d" "$e" "$f"'
