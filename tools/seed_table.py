#!/usr/bin/env python3
"""Regenerate the seeded-changes table in DESIGN.md (section 0.5) from seeded/*/meta.json"""
import glob, json, os
ROOT = os.path.dirname(os.path.dirname(os.path.abspath(__file__)))
rows = []
for p in sorted(glob.glob(os.path.join(ROOT, "seeded", "*", "meta.json"))):
    m = json.load(open(p))
    demo = "-"
    if "demo_with_change" in m:
        demo = f"fails with ({m['demo_with_change']['exit']}) / passes without ({m['demo_without_change']['exit']})"
    verd = ", ".join(f"{k}: {v['verdict']}" for k, v in m.get("checks", {}).items())
    extra = m.get("thorough_note", "")
    rows.append(f"| {m['name']} | {m['property']} | {m['needs']} | {m.get('suite_with_change', '').split(',')[0]} | {demo} | {verd}{(' ; ' + extra) if extra else ''} |")
table = "| change | breaks | needs, in order to manifest | suite with the change | demonstration | quick checks run against it |\n|---|---|---|---|---|---|\n" + "\n".join(rows)
d = open(os.path.join(ROOT, "DESIGN.md")).read()
a = d.index("<!-- SEED_TABLE_BEGIN -->") + len("<!-- SEED_TABLE_BEGIN -->") if "<!-- SEED_TABLE_BEGIN -->" in d else None
if a is None:
    d = d.replace("SEED_TABLE_PLACEHOLDER", "<!-- SEED_TABLE_BEGIN -->\n" + table + "\n<!-- SEED_TABLE_END -->")
else:
    b = d.index("<!-- SEED_TABLE_END -->")
    d = d[:a] + "\n" + table + "\n" + d[b:]
open(os.path.join(ROOT, "DESIGN.md"), "w").write(d)
print(len(rows), "rows")
