"""Shadows of python builtins and of `math` that keep symbolic values symbolic.

Each shadow is the genuine builtin on concrete arguments.  `int`, `float`, `bool`, `str` shadows are
usable as types (isinstance, defaultdict(int), annotations) through a metaclass.
"""
import builtins as _bi
import math as _math
import types
import z3
from fractions import Fraction
from .core import SB, SV, cur, ite, concretize_int
from .ev import EV, ev_ite, And, Or, Not, _b, is_symbolic
from . import npmodel


class _IntMeta(type):
    def __instancecheck__(cls, obj):
        if _bi.isinstance(obj, SV):
            return obj.is_int()
        return _bi.isinstance(obj, _bi.int)

    def __subclasscheck__(cls, sub):
        return _bi.issubclass(sub, _bi.int)

    def __call__(cls, *a, **k):
        if not a:
            return 0
        x = a[0]
        if _bi.isinstance(x, SB):
            return x._sv()
        if _bi.isinstance(x, SV):
            if x.is_int():
                return x
            return SV(z3.ToInt(z3.If(x.e >= 0, x.e, -z3.ToReal(z3.ToInt(-x.e)))))  # trunc toward zero
        if _bi.isinstance(x, EV):
            # int(float): truncation; inf/nan raise in python -> fork
            if bool(SB(_b(Or(x.nan, x.inf)))):
                raise (ValueError if True else OverflowError)("cannot convert float NaN/inf to integer")
            v = x.v
            return SV(z3.If(v >= 0, z3.ToInt(v), -z3.ToInt(-v)))
        if _bi.isinstance(x, Fraction):
            return _bi.int(x)
        return _bi.int(*a, **k)


class int(metaclass=_IntMeta):
    pass


EXACT_FLOAT_OF_INT = [False]


class _FloatMeta(type):
    def __instancecheck__(cls, obj):
        if _bi.isinstance(obj, EV):
            return True
        if _bi.isinstance(obj, SV):
            return not obj.is_int()
        return _bi.isinstance(obj, _bi.float)

    def __call__(cls, *a, **k):
        if not a:
            return 0.0
        x = a[0]
        if _bi.isinstance(x, (EV,)):
            return x
        if EXACT_FLOAT_OF_INT[0] and _bi.isinstance(x, SV) and x.is_int():
            return EV.of(npmodel._float_of_int(x))      # float64 rounding of large integers (harnesses with 2^53+ integers: C07)
        if _bi.isinstance(x, (SV, SB)):
            return EV.of(x)
        if _bi.isinstance(x, Fraction):
            return x
        return _bi.float(*a, **k)


class float(metaclass=_FloatMeta):
    pass


class _BoolMeta(type):
    def __instancecheck__(cls, obj):
        return _bi.isinstance(obj, (_bi.bool, SB))

    def __call__(cls, *a, **k):
        if not a:
            return False
        x = a[0]
        if _bi.isinstance(x, SB):
            return x
        if _bi.isinstance(x, SV):
            return SB(x.e != 0)
        if _bi.isinstance(x, EV):
            return SB(_b(Not(x._eq(EV.of(0)))))
        if hasattr(x, '__symbool__'):
            return x.__symbool__()
        return _bi.bool(x)


class bool(metaclass=_BoolMeta):
    pass


def _pymin2(a, b):
    """python: min(a, b) returns b if b < a else a"""
    if not is_symbolic(a) and not is_symbolic(b):
        return _bi.min(a, b)
    c = npmodel._sop(b, a, '<')
    return ite(c, b, a)


def _pymax2(a, b):
    if not is_symbolic(a) and not is_symbolic(b):
        return _bi.max(a, b)
    c = npmodel._sop(b, a, '>')
    return ite(c, b, a)


def _args(a):
    if len(a) == 1:
        x = a[0]
        return list(x)
    return list(a)


def min(*a, **k):
    xs = _args(a)
    if 'default' in k and _bi.len(k) == 1 and _bi.len(a) == 1:
        if not xs:
            return k['default']
        k = {}
    if k or not _bi.any(is_symbolic(v) for v in xs):
        return _bi.min(*a, **k)
    r = xs[0]
    for v in xs[1:]:
        r = _pymin2(r, v)
    return r


def max(*a, **k):
    xs = _args(a)
    if 'default' in k and _bi.len(k) == 1 and _bi.len(a) == 1:
        if not xs:
            return k['default']
        k = {}
    if k or not _bi.any(is_symbolic(v) for v in xs):
        return _bi.max(*a, **k)
    r = xs[0]
    for v in xs[1:]:
        r = _pymax2(r, v)
    return r


def sum(xs, start=0):
    acc = start
    for v in xs:
        if _bi.isinstance(v, _bi.bool):
            v = _bi.int(v)
        acc = npmodel._sop(acc, v, '+') if (is_symbolic(acc) or is_symbolic(v)) else acc + v
    return acc


def abs(x):
    return _bi.abs(x)


def any(xs):
    r = False
    for v in xs:
        if _bi.isinstance(v, SB):
            r = Or(r, v.e)
        elif _bi.isinstance(v, (SV, EV)):
            r = Or(r, bool(v).e)
        else:
            if v:
                return True
    if _bi.isinstance(r, _bi.bool):
        return r
    return SB(r)


def all(xs):
    r = True
    for v in xs:
        if _bi.isinstance(v, SB):
            r = And(r, v.e)
        elif _bi.isinstance(v, (SV, EV)):
            r = And(r, bool(v).e)
        else:
            if not v:
                return False
    if _bi.isinstance(r, _bi.bool):
        return r
    return SB(r)


def isinstance(obj, t):
    if t is _bi.int:
        t = int
    elif t is _bi.float:
        t = float
    elif t is _bi.bool:
        t = bool
    elif _bi.isinstance(t, tuple):
        return _bi.any(isinstance(obj, x) for x in t)
    return _bi.isinstance(obj, t)


def round(x, n=None):
    if is_symbolic(x):
        raise NotImplementedError("round on symbolic value")
    return _bi.round(x, n) if n is not None else _bi.round(x)


SHADOWS = dict(int=int, float=float, bool=bool, min=min, max=max, sum=sum, any=any, all=all,
               isinstance=isinstance, round=round)


# -- math ---------------------------------------------------------------------------------------
def _mk_math():
    m = types.ModuleType("math")
    m.__dict__.update({k: v for k, v in vars(_math).items() if not k.startswith('__')})

    def isinf(x):
        if _bi.isinstance(x, EV):
            return x.isinf()
        if _bi.isinstance(x, (SV, SB)):
            return False
        if _bi.isinstance(x, Fraction):
            return False
        return _math.isinf(x)

    def isnan(x):
        if _bi.isinstance(x, EV):
            return x.isnan()
        if _bi.isinstance(x, (SV, SB, Fraction)):
            return False
        return _math.isnan(x)

    def isfinite(x):
        if _bi.isinstance(x, EV):
            return x.isfinite()
        if _bi.isinstance(x, (SV, SB, Fraction)):
            return True
        return _math.isfinite(x)

    def _floor_sym(x):
        if _bi.isinstance(x, SV) and x.is_int():
            return x
        e = EV.of(x)
        if bool(SB(_b(Or(e.nan, e.inf)))):
            raise ValueError("cannot convert float NaN/inf to integer")
        return SV(z3.ToInt(e.v))

    def floor(x):
        if is_symbolic(x):
            return _floor_sym(x)
        return _math.floor(x)

    def ceil(x):
        if is_symbolic(x):
            f = _floor_sym(-x if not _bi.isinstance(x, SB) else -x._sv())
            return -f
        return _math.ceil(x)

    def sqrt(x):
        if is_symbolic(x):
            return npmodel.sqrt(x)
        return _math.sqrt(x)

    m.isinf = isinf
    m.isnan = isnan
    m.isfinite = isfinite
    m.floor = floor
    m.ceil = ceil
    m.sqrt = sqrt
    return m


math = _mk_math()
