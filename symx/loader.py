"""Load the real /repo sources, unchanged, into fresh module objects whose imports resolve to the models.

Nothing under /repo is edited or copied: the file is read from the current working tree on every run,
compiled as is and executed in a namespace whose `__import__` maps numpy/math/cryptorandom/pandas/... to
symx models and whose module globals shadow a few builtins (int, bool, min, max, ...).
"""
import builtins
import hashlib
import os
import sys
import types
import warnings

from . import npmodel, pymodel

REPO = os.environ.get("SYMX_REPO", "/repo")

FILES = {
    "shangrla.core.NonnegMean": "shangrla/core/NonnegMean.py",
    "shangrla.core.Audit": "shangrla/core/Audit.py",
    "shangrla.core.IRVVisualisationUtils": "shangrla/core/IRVVisualisationUtils.py",
    "shangrla.formats.Dominion": "shangrla/formats/Dominion.py",
    "shangrla.formats.Hart": "shangrla/formats/Hart.py",
    "shangrla.raire.raire": "shangrla/raire/raire.py",
    "shangrla.raire.raire_utils": "shangrla/raire/raire_utils.py",
    "shangrla.raire.sample_estimator": "shangrla/raire/sample_estimator.py",
}


class _AnyAttr:
    def __getattr__(self, k):
        return ''

    def __call__(self, *a, **k):
        return self


class _Stub(types.ModuleType):
    """module whose every attribute is an inert object"""
    def __getattr__(self, k):
        if k.startswith('__'):
            raise AttributeError(k)
        return _AnyAttr()


class Loader:
    def __init__(self, extra_modules=None, extra_globals=None, shadows=True, quiet=True):
        self.cache = {}
        self.extra_modules = dict(extra_modules or {})   # name -> module object (harness-provided stubs)
        self.extra_globals = dict(extra_globals or {})
        self.shadows = shadows
        self.quiet = quiet
        self.sha = {}
        self.snap = []      # (container object, pristine shallow copy): module-level and default-argument state of the loaded code
        from . import core as _core
        _core.PATH_START_HOOKS.append(self.reset_state)

    def path(self, name):
        return os.path.join(REPO, FILES[name])

    def load(self, name):
        if name in self.cache:
            return self.cache[name]
        path = self.path(name)
        with open(path, 'rb') as f:
            raw = f.read()
        self.sha[FILES[name]] = hashlib.sha256(raw).hexdigest()[:16]
        mod = types.ModuleType(name)
        mod.__file__ = path
        mod.__package__ = name.rsplit('.', 1)[0]
        b = dict(vars(builtins))
        b['__import__'] = self._make_import(name)
        if self.quiet:
            b['print'] = lambda *a, **k: None
        mod.__dict__['__builtins__'] = b
        if self.shadows:
            mod.__dict__.update(pymodel.SHADOWS)
        mod.__dict__.update(self.extra_globals)
        self.cache[name] = mod
        with warnings.catch_warnings():
            warnings.simplefilter("ignore")
            code = compile(raw.decode('utf8'), path, 'exec')
        exec(code, mod.__dict__)
        self._snapshot(mod)
        return mod

    def _snapshot(self, mod):
        """remember mutable module-level containers and mutable default arguments, so that every explored path starts from the
        state of a fresh process (paths are re-executions in one process; state carried *within* a path is kept)"""
        def note(obj):
            if type(obj) in (dict, list, set):
                self.snap.append((obj, type(obj)(obj)))

        def funcs(ns):
            for v in list(ns.values()):
                f = getattr(v, '__func__', v)
                if isinstance(f, types.FunctionType) and f.__module__ == mod.__name__:
                    for d in (f.__defaults__ or ()):
                        note(d)
                    for d in (f.__kwdefaults__ or {}).values():
                        note(d)
        for k, v in list(mod.__dict__.items()):
            if k.startswith('__'):
                continue
            if getattr(v, '__module__', None) not in (None, mod.__name__) and not type(v) in (dict, list, set):
                continue
            note(v)
            if isinstance(v, type) and v.__module__ == mod.__name__:
                for kk, vv in list(vars(v).items()):
                    if not kk.startswith('__'):
                        note(vv)
                funcs(vars(v))
        funcs(mod.__dict__)

    def reset_state(self):
        for obj, pristine in self.snap:
            if type(obj) is list:
                obj[:] = pristine
            else:
                obj.clear()
                obj.update(pristine)

    def _resolve(self, nm):
        if nm in self.extra_modules:
            return self.extra_modules[nm]
        if nm == 'numpy':
            return npmodel
        if nm == 'math':
            return pymodel.math
        if nm.split('.')[0] in ('svgling', 'colorama'):
            return _Stub(nm)
        if nm.split('.')[0] == 'cryptorandom':
            return _Stub(nm)
        if nm in FILES:
            return self.load(nm)
        if nm == 'pandas':
            return _Stub(nm)
        return None

    def _make_import(self, importer):
        real = builtins.__import__
        pkg = importer.rsplit('.', 1)[0]

        def fake_import(nm, globals=None, locals=None, fromlist=(), level=0):
            if level > 0:
                base = pkg.split('.')
                if level > 1:
                    base = base[:-(level - 1)]
                nm = '.'.join(base + ([nm] if nm else []))
            m = self._resolve(nm)
            if m is not None:
                if fromlist or '.' not in nm:
                    return m
                # `import a.b.c` returns the top package: build a namespace chain
                top = types.ModuleType(nm.split('.')[0])
                cur = top
                parts = nm.split('.')
                for i, p in enumerate(parts[1:], 1):
                    sub = m if i == len(parts) - 1 else types.ModuleType('.'.join(parts[:i + 1]))
                    setattr(cur, p, sub)
                    cur = sub
                return top
            if nm.startswith('shangrla'):
                # packages themselves
                if nm in ('shangrla', 'shangrla.core', 'shangrla.formats', 'shangrla.raire'):
                    return types.ModuleType(nm)
                raise ImportError(nm)
            return real(nm, globals, locals, fromlist, level)
        return fake_import


def real_module(name):
    """the real module imported normally from /repo (for replay)"""
    import importlib
    if REPO not in sys.path:
        sys.path.insert(0, REPO)
    with warnings.catch_warnings():
        warnings.simplefilter("ignore")
        return importlib.import_module(name)
