"""Check driver: runs a property harness over its cells on a process pool, replays counterexamples on the
real code, applies the known-findings file, writes the evidence file and prints the verdict lines.

exit 0  property held on everything explored (KNOWN-FINDING lines possible)
exit 1  VIOLATION property=<id> replay=<path>   (only after the counterexample reproduced on the real code)
exit 3  inconclusive / harness error (undecided query, vacuous cell, non-reproducing model, model self-test failure)
"""
import argparse
import hashlib
import importlib
import json
import multiprocessing as mp
import os
import random
import sys
import time
import traceback
import warnings

ROOT = os.path.dirname(os.path.dirname(os.path.abspath(__file__)))
sys.path.insert(0, ROOT)


def _jsonable(x):
    from fractions import Fraction
    if isinstance(x, Fraction):
        return str(x) if x.denominator != 1 else x.numerator
    if isinstance(x, float):
        if x != x:
            return "nan"
        if x in (float('inf'), float('-inf')):
            return "inf" if x > 0 else "-inf"
        return x
    if isinstance(x, dict):
        return {str(k): _jsonable(v) for k, v in x.items()}
    if isinstance(x, (list, tuple, set, frozenset)):
        return [_jsonable(v) for v in x]
    if isinstance(x, (int, str, bool)) or x is None:
        return x
    if hasattr(x, 'item'):
        return _jsonable(x.item())
    return str(x)


def _run_cell(args):
    modname, cell = args
    warnings.simplefilter("ignore")
    t0 = time.time()
    try:
        h = importlib.import_module(modname)
        res = h.run_cell(cell)
        res.setdefault('findings', [])
        res.setdefault('samples', [])
        res.setdefault('notes', [])
        res.setdefault('vacuous', False)
        # replay each candidate counterexample on the real code, here in the worker
        for f in res['findings']:
            if 'replay' not in f:
                try:
                    f['replay'] = h.replay(f)
                except Exception as e:      # noqa
                    f['replay'] = {'reproduced': False, 'detail': 'replay crashed: ' + repr(e) + traceback.format_exc()[-800:]}
        res['cell'] = cell
        res['error'] = None
    except Exception as e:      # noqa
        res = {'cell': cell, 'error': repr(e) + "\n" + traceback.format_exc()[-3000:], 'findings': [], 'samples': [],
               'notes': [], 'vacuous': False, 'stats': {}}
    res['wall_s'] = round(time.time() - t0, 3)
    return _jsonable(res)


def load_known(pid):
    p = os.path.join(ROOT, "KNOWN_FINDINGS.json")
    if not os.path.exists(p):
        return {}
    d = json.load(open(p))
    return {e['id']: e for e in d.get('findings', []) if e.get('property') == pid and e.get('status') == 'open'}


def main(argv=None):
    ap = argparse.ArgumentParser()
    ap.add_argument("property")
    ap.add_argument("--tier", default=os.environ.get("VERIF_TIER", "quick"))
    ap.add_argument("--replay")
    ap.add_argument("--jobs", type=int, default=int(os.environ.get("VERIF_JOBS", "16")))
    ap.add_argument("--cell", type=int, help="run only this cell index (debugging)")
    a = ap.parse_args(argv)
    pid = a.property.upper()
    tier = a.tier if a.tier in ("quick", "thorough") else "quick"
    seed = int(os.environ.get("VERIF_SEED", "0") or 0)
    modname = "harness." + pid.lower()
    warnings.simplefilter("ignore")
    h = importlib.import_module(modname)

    if a.replay:
        f = json.load(open(a.replay))
        r = h.replay(f['finding'])
        print(json.dumps(_jsonable(r), indent=1))
        if r.get('reproduced'):
            print(f"VIOLATION property={pid} replay={a.replay}")
            return 1
        print("replay did not reproduce")
        return 0

    t0 = time.time()
    # model self-test (translator validation): differential test of the numpy/builtins model against real numpy
    from symx import selftest
    st = selftest.run(seed)
    if st['failures']:
        print(f"INCONCLUSIVE property={pid} model self-test failed: {st['failures'][:3]}")
        return 3

    cells = h.cells(tier)
    rnd = random.Random(seed)
    order = list(range(len(cells)))
    rnd.shuffle(order)
    if a.cell is not None:
        order = [a.cell]
    work = [(modname, cells[i]) for i in order]
    results = []
    if a.jobs > 1 and len(work) > 1:
        ctx = mp.get_context("fork")
        with ctx.Pool(min(a.jobs, len(work))) as pool:
            for r in pool.imap_unordered(_run_cell, work, chunksize=1):
                results.append(r)
    else:
        for w in work:
            results.append(_run_cell(w))

    known = load_known(pid)
    agg = {}
    violations = []
    known_hits = {}
    nonrepro = []
    errors = []
    vacuous = []
    samples = []
    notes = []
    for r in results:
        if r['error']:
            errors.append({'cell': r['cell'], 'error': r['error']})
        for k, v in (r.get('stats') or {}).items():
            if isinstance(v, (int, float)):
                agg[k] = agg.get(k, 0) + v
        if r.get('vacuous'):
            vacuous.append(r['cell'])
        samples.extend(r.get('samples', [])[:2])
        notes.extend(r.get('notes', []))
        for f in r['findings']:
            rp = f.get('replay') or {}
            if not rp.get('reproduced'):
                if f.get('advisory'):      # a rounding candidate (outside the exact-real model) that the real code does not confirm: no claim
                    notes.append(f"unconfirmed rounding candidate dropped: {f.get('clause')} {json.dumps(f.get('inputs'))[:160]}")
                    agg['sat'] = agg.get('sat', 0) - 1
                    agg['obligations'] = agg.get('obligations', 0) - 1
                    continue
                nonrepro.append(f)
                continue
            kid = f.get('known')
            if kid and kid in known:
                known_hits.setdefault(kid, []).append(f)
            else:
                violations.append(f)

    OUT = os.environ.get("SYMX_OUT", ROOT)      # scratch output directory for runs against modified trees (seeded changes)
    os.makedirs(os.path.join(OUT, "replays"), exist_ok=True)
    os.makedirs(os.path.join(OUT, "evidence"), exist_ok=True)
    vio_paths = []
    seen = set()
    for f in violations:
        key = hashlib.sha256(json.dumps({k: f.get(k) for k in ('clause', 'inputs', 'cell')}, sort_keys=True).encode()).hexdigest()[:12]
        if key in seen:
            continue
        seen.add(key)
        path = os.path.join(OUT, "replays", f"{pid}-{key}.json")
        json.dump({'property': pid, 'finding': f}, open(path, "w"), indent=1)
        vio_paths.append((path, f))

    inconcl = int(agg.get('inconclusive', 0))
    wall = round(time.time() - t0, 2)
    meta = getattr(h, 'META', {})
    obligations = int(agg.get('obligations', 0))
    discharged = int(agg.get('discharged', 0))
    ev = {
        "property_id": pid,
        "tier": tier,
        "seed": seed,
        "level": "other",
        "coverage": {
            "explanation": meta.get('explanation', '') + " Every result is 'holds for all values within the stated bounds'; nothing outside the bounds is claimed.",
            "technique": "bounded symbolic execution of the real /repo source (symx engine) + z3; counterexamples replayed on the real code",
            "functions_encoded": meta.get('functions', []),
            "bounds": meta.get('bounds', {}).get(tier, meta.get('bounds', {})),
            "outside_claim": meta.get('outside', []),
            "cells": len(work),
            "evaluations": int(agg.get('paths', 0)),
            "distinct_nontrivial": discharged + int(agg.get('sat', 0)),
            "rule": "evaluations = feasible symbolic paths explored through the real code (incl. nested summary paths); "
                    "distinct_nontrivial = solver-decided obligations (one per clause x path x cell; trivially-true claims folded by "
                    "construction are not counted)",
            "paths": int(agg.get('paths', 0)),
            "infeasible_prefixes": int(agg.get('infeasible', 0)),
            "concretised_paths": int(agg.get('concretised', 0)),
            "obligations": obligations,
            "discharged": discharged,
            "sat_candidates": int(agg.get('sat', 0)),
            "inconclusive": inconcl,
            "feasibility_queries": int(agg.get('feas_queries', 0)),
            "feasibility_unknown_treated_feasible": int(agg.get('feas_unknown', 0)),
            "exact_normaliser_identities": int(agg.get('norm_identities', 0)),
            "solver_time_s": round(agg.get('solver_time', 0) + agg.get('prove_time', 0), 2),
            "solver": "z3 " + __import__('z3').get_version_string(),
            "model_selftest": {k: st[k] for k in ('cases', 'functions')},
            "source_sha256_16": _source_sha(meta),
            "known_findings_matched": {k: len(v) for k, v in known_hits.items()},
            "non_reproducing_models": len(nonrepro),
            "vacuous_cells": len(vacuous),
            "harness_errors": len(errors),
            "samples": samples[:8] if samples else [{"note": "no sample recorded"}],
            "trusted_base": meta.get('trusted', []) + ["symx numpy/builtins model (differentially self-tested each run)", "z3"],
            "notes": notes[:20],
            "exhaustive": False,
        },
        "assumptions": meta.get('assumptions', []),
        "wall_s": wall,
        "violations": len(vio_paths),
    }
    json.dump(ev, open(os.path.join(OUT, "evidence", f"{pid}.json"), "w"), indent=1)

    for kid, fs in known_hits.items():
        print(f"KNOWN-FINDING: property={pid} {known[kid]['what']} [{kid}; {len(fs)} witness(es), e.g. {json.dumps(fs[0].get('inputs'))[:200]}]")
    print(f"[{pid} {tier}] cells={len(work)} paths={ev['coverage']['paths']} obligations={obligations} discharged={discharged} "
          f"sat={ev['coverage']['sat_candidates']} inconclusive={inconcl} nonrepro={len(nonrepro)} errors={len(errors)} wall={wall}s")
    if vio_paths:
        for path, f in vio_paths:
            print(f"VIOLATION property={pid} replay={path}")
            print("   ", f.get('clause'), json.dumps(f.get('inputs'))[:300], '->', str((f.get('replay') or {}).get('detail'))[:300])
        return 1
    rc = 0
    for e in errors[:5]:
        print(f"INCONCLUSIVE property={pid} harness error in cell {json.dumps(e['cell'])[:200]}: {e['error'][-1500:]}")
        rc = 3
    for f in nonrepro[:5]:
        print(f"INCONCLUSIVE property={pid} NONREPRO clause={f.get('clause')} inputs={json.dumps(f.get('inputs'))[:300]} detail={str((f.get('replay') or {}).get('detail'))[:300]}")
        rc = 3
    if inconcl:
        print(f"INCONCLUSIVE property={pid} {inconcl} obligation(s) undecided by the solver within the time limit")
        rc = 3
    for c in vacuous[:5]:
        print(f"INCONCLUSIVE property={pid} vacuous cell {json.dumps(c)[:200]}")
        rc = 3
    return rc


def _source_sha(meta):
    out = {}
    repo = os.environ.get("SYMX_REPO", "/repo")
    for f in meta.get('files', []):
        try:
            out[f] = hashlib.sha256(open(os.path.join(repo, f), 'rb').read()).hexdigest()[:16]
        except OSError:
            out[f] = "missing"
    return out


if __name__ == "__main__":
    sys.exit(main())
