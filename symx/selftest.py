"""Differential self-test of the numpy/builtins model against real numpy on concrete vectors.

Each modelled function is run (a) through the model on EV-wrapped concrete rationals (the symbolic code path with
constant terms) and on plain python floats (the concrete path), and (b) through real numpy; results must agree
(exactly for specials, to 1e-9 relative otherwise).
"""
import math
import random
import numpy as real_np
import z3
from fractions import Fraction
from . import npmodel as M
from .ev import EV
from .core import SB, SV

SPECIALS = [0.0, 1.0, 0.5, 0.25, 2.0, -1.0, 1e-9, 3.0, math.inf, -math.inf, math.nan, 0.75, 1 / 3]


def _conc(v):
    """model value -> python float"""
    if isinstance(v, EV):
        nan = v.nan if isinstance(v.nan, bool) else z3.is_true(z3.simplify(v.nan))
        if nan:
            return math.nan
        inf = v.inf if isinstance(v.inf, bool) else z3.is_true(z3.simplify(v.inf))
        s = z3.simplify(v.v)
        f = Fraction(s.numerator_as_long(), s.denominator_as_long()) if z3.is_rational_value(s) else None
        if inf:
            return math.inf if f > 0 else -math.inf
        return float(f)
    if isinstance(v, SB):
        return bool(z3.is_true(z3.simplify(v.e)))
    if isinstance(v, SV):
        s = z3.simplify(v.e)
        return s.as_long() if z3.is_int_value(s) else float(Fraction(s.numerator_as_long(), s.denominator_as_long()))
    if isinstance(v, Fraction):
        return float(v)
    return v


def _same(a, b):
    if isinstance(a, bool) or isinstance(b, (bool, real_np.bool_)):
        return bool(a) == bool(b)
    a = float(a)
    b = float(b)
    if math.isnan(a) or math.isnan(b):
        return math.isnan(a) and math.isnan(b)
    if math.isinf(a) or math.isinf(b):
        return a == b
    return abs(a - b) <= 1e-9 * max(1.0, abs(a), abs(b))


def _wrap(xs):
    return M.Arr([EV.of(x) for x in xs])


def run(seed=0):
    rnd = random.Random(seed)
    fails = []
    cases = 0
    funcs = set()

    def vec(n):
        return [rnd.choice(SPECIALS) if rnd.random() < 0.5 else round(rnd.uniform(-2, 2), 3) for _ in range(n)]

    def check(name, model_res, real_res):
        nonlocal cases
        cases += 1
        funcs.add(name)
        try:
            if isinstance(model_res, M.Arr):
                mr = [_conc(v) for v in model_res.a]
                rr = list(real_res)
                ok = len(mr) == len(rr) and all(_same(x, y) for x, y in zip(mr, rr))
            else:
                ok = _same(_conc(model_res), real_res)
        except Exception as e:      # noqa
            ok = False
            mr = repr(e)
        if not ok:
            fails.append((name, str(model_res)[:200], str(real_res)[:200]))

    with real_np.errstate(all="ignore"):
        for _ in range(60):
            n = rnd.randint(1, 5)
            a = vec(n)
            b = vec(n)
            s = rnd.choice(SPECIALS)
            ra, rb = real_np.array(a), real_np.array(b)
            for wrap in (_wrap, lambda v: M.Arr(list(v))):
                A, B = wrap(a), wrap(b)
                check('add', A + B, ra + rb)
                check('sub', A - B, ra - rb)
                check('mul', A * B, ra * rb)
                check('div', A / B, ra / rb)
                check('rdiv', s / A, s / ra)
                check('rsub', s - A, s - ra)
                check('lt', A < B, ra < rb)
                check('le', A <= B, ra <= rb)
                check('eq', A == B, ra == rb)
                check('cumsum', M.cumsum(A), real_np.cumsum(ra))
                check('cumprod', M.cumprod(A), real_np.cumprod(ra))
                check('minimum', M.minimum(A, B), real_np.minimum(ra, rb))
                check('maximum', M.maximum(s, A), real_np.maximum(s, ra))
                check('max', M.max(A), real_np.max(ra))
                check('min', M.min(A), real_np.min(ra))
                check('sum', M.sum(A), real_np.sum(ra))
                check('mean', M.mean(A), real_np.mean(ra))
                check('isclose', M.isclose(s, A, atol=1e-3), real_np.isclose(s, ra, atol=1e-3))
                check('isclose2', M.isclose(A, B, rtol=1e-2, atol=1e-6), real_np.isclose(ra, rb, rtol=1e-2, atol=1e-6))
                check('isnan', M.isnan(A), real_np.isnan(ra))
                check('isfinite', M.isfinite(A), real_np.isfinite(ra))
                check('insert', M.insert(A, 0, s), real_np.insert(ra, 0, s))
                check('roll', M.roll(A, 1), real_np.roll(ra, 1))
                check('roll', M.roll(A, -2), real_np.roll(ra, -2))
                check('flip', M.flip(A), real_np.flip(ra))
                if len(ra) > 1:
                    check('diff', M.diff(A), real_np.diff(ra))
                check('tile', M.tile(A, 2), real_np.tile(ra, 2))
                check('repeat', M.repeat(A, 2), real_np.repeat(ra, 2))
                check('append', M.append(A, B), real_np.append(ra, rb))
                sq = [rnd.choice([0.0, 1.0, 0.25, 4.0, 2.25, math.inf, math.nan, -1.0, -math.inf]) for _ in range(n)]
                check('sqrt', M.sqrt(wrap(sq)), real_np.sqrt(real_np.array(sq)))
                check('nan_to_num', M.nan_to_num(A, nan=0.0), real_np.where(real_np.isnan(ra), 0.0, ra))
                # mask assignment
                A2 = wrap(a)
                r2 = ra.copy()
                A2[A2 > s] = 7
                r2[r2 > s] = 7
                check('mask_assign', A2, r2)
                A3 = wrap(a)
                r3 = ra.copy()
                A3[M.isnan(A3)] = 1
                r3[real_np.isnan(r3)] = 1
                check('mask_assign_nan', A3, r3)
                cond = bool(rnd.getrandbits(1))
                A4 = wrap(a)
                r4 = ra.copy()
                A4[cond] = 3
                r4[cond] = 3
                check('scalar_bool_assign', A4, r4)
                check('argmax_bool', M.argmax(A > s), real_np.argmax(ra > s))
                fin = [x for x in a if math.isfinite(x)]
                if fin:
                    srt = sorted(fin)
                    q = rnd.choice(fin)
                    check('searchsorted_l', M.searchsorted(wrap(srt), EV.of(q), side="left"),
                          real_np.searchsorted(real_np.array(srt), q, side="left"))
                    check('searchsorted_r', M.searchsorted(wrap(srt), EV.of(q), side="right"),
                          real_np.searchsorted(real_np.array(srt), q, side="right"))
        # python min/max NaN semantics
        from . import pymodel
        for _ in range(40):
            x, y = rnd.choice(SPECIALS), rnd.choice(SPECIALS)
            check('pymin', pymodel.min(EV.of(x), y), min(x, y))
            check('pymax', pymodel.max(x, EV.of(y)), max(x, y))
    return {'cases': cases, 'functions': len(funcs), 'failures': fails}


if __name__ == "__main__":
    r = run()
    print(r['cases'], r['functions'], r['failures'][:10])
