"""Model of the numpy subset SHANGRLA uses: 1-D list-backed arrays of EV / SV / SB / python numbers.

Wholly concrete arithmetic on python floats follows numpy (x/0 -> inf/nan instead of raising).
The module object is handed to the analysed code as `numpy`.
"""
import math
import contextlib
import builtins as _bi
import z3
from fractions import Fraction
from .core import SB, SV, cur, frac, concretize_int, ite, PathAbort
from . import ev as _ev
from .ev import EV, ev_min, ev_max, ev_ite, _b, And, Or, Not, is_symbolic, R

inf = math.inf
infty = math.inf
nan = math.nan
pi = math.pi
integer = int
floating = float
bool_ = bool
int64 = int
float64 = float


class _FI:
    eps = 2.0 ** -52
    max = 1.7976931348623157e+308
    tiny = 2.2250738585072014e-308


def finfo(t=float):
    return _FI()


@contextlib.contextmanager
def errstate(**kw):
    yield


def seterr(**kw):
    return {}


OBSERVERS = []      # callbacks (name, args, result) used by harnesses to find cut points (cumprod)


def _notify(name, arg, res):
    """observers may return a replacement result (a sound abstraction proved by the harness)"""
    out = None
    for f in list(OBSERVERS):
        r = f(name, arg)
        if r is not None:
            out = r
    return out if out is not None else res()


# -- scalar helpers ---------------------------------------------------------------------------
def _conc(x):
    return isinstance(x, (int, float, Fraction)) and not isinstance(x, bool) or isinstance(x, bool)


def _num(x):
    """normalise numpy scalars to python"""
    if hasattr(x, 'item') and not isinstance(x, (EV, SV, SB)):
        return x.item()
    return x


def _sdiv(a, b):
    if _conc(a) and _conc(b):
        try:
            return a / b
        except ZeroDivisionError:
            a = float(a)
            if a != a or a == 0:
                return math.nan
            return math.inf if a > 0 else -math.inf
        except OverflowError:
            return float(a) / float(b)
    return EV.of(a) / EV.of(b)


def _sop(a, b, op):
    a = _num(a)
    b = _num(b)
    if _conc(a) and _conc(b):
        if op == '/':
            return _sdiv(a, b)
        if isinstance(a, Fraction) and isinstance(b, float) or isinstance(b, Fraction) and isinstance(a, float):
            if all(math.isfinite(v) for v in (a, b) if isinstance(v, float)):
                a, b = frac(a), frac(b)
        try:
            return {'+': lambda: a + b, '-': lambda: a - b, '*': lambda: a * b,
                    '<': lambda: a < b, '<=': lambda: a <= b, '>': lambda: a > b, '>=': lambda: a >= b,
                    '==': lambda: a == b, '!=': lambda: a != b}[op]()
        except OverflowError:
            a, b = float(a), float(b)
            return _sop(a, b, op)
    if op in '+-*' and isinstance(a, (SV, SB, int, bool)) and isinstance(b, (SV, SB, int, bool)) and not (
            isinstance(a, (int, bool)) and isinstance(b, (int, bool))):
        x = a._sv() if isinstance(a, SB) else a
        y = b._sv() if isinstance(b, SB) else b
        return {'+': lambda: x + y, '-': lambda: x - y, '*': lambda: x * y}[op]()
    if isinstance(a, (SV, int, bool)) and isinstance(b, (SV, int, bool)) and op in ('<', '<=', '>', '>=', '==', '!='):
        return {'<': lambda: a < b, '<=': lambda: a <= b, '>': lambda: a > b, '>=': lambda: a >= b,
                '==': lambda: a == b, '!=': lambda: a != b}[op]()
    if isinstance(a, (SB, bool)) and isinstance(b, (SB, bool)) and op in ('==', '!='):
        x = a if isinstance(a, SB) else SB(a)
        return (x == b) if op == '==' else (x != b)
    x, y = EV.of(a), EV.of(b)
    return {'+': lambda: x + y, '-': lambda: x - y, '*': lambda: x * y, '/': lambda: x / y,
            '<': lambda: x < y, '<=': lambda: x <= y, '>': lambda: x > y, '>=': lambda: x >= y,
            '==': lambda: x == y, '!=': lambda: x != y}[op]()


def _is_seq(x):
    return isinstance(x, (Arr, list, tuple)) or (hasattr(x, '__len__') and hasattr(x, 'tolist'))


def _items(x):
    if isinstance(x, Arr):
        return list(x.a)
    if hasattr(x, 'tolist') and not isinstance(x, (EV, SV, SB)):
        return list(x.tolist())
    return list(x)


class Arr:
    """1-D array"""
    __array_ufunc__ = None
    ndim = 1

    def __init__(self, items):
        self.a = [_num(v) for v in items]

    @property
    def shape(self):
        return (len(self.a),)

    @property
    def size(self):
        return len(self.a)

    def __len__(self):
        return len(self.a)

    def __iter__(self):
        return iter(self.a)

    def tolist(self):
        return list(self.a)

    def copy(self):
        return Arr(self.a)

    # in-place operators mutate the array object (numpy semantics), so aliasing with the caller's array is visible
    def _inplace(self, r):
        self.a = list(r.a)
        return self

    def __iadd__(self, o): return self._inplace(self + o)
    def __isub__(self, o): return self._inplace(self - o)
    def __imul__(self, o): return self._inplace(self * o)
    def __itruediv__(self, o): return self._inplace(self / o)

    def astype(self, t):
        return Arr([t(v) if _conc(v) else v for v in self.a])

    def _bc(self, o):
        if _is_seq(o):
            o = _items(o)
            if len(o) == len(self.a):
                return o
            if len(o) == 1:
                return o * len(self.a)
            if len(self.a) == 1:
                return o
            raise ValueError(f"operands could not be broadcast together with shapes ({len(self.a)},) ({len(o)},)")
        return [o] * len(self.a)

    def _el(self, o, op, r=False):
        ys = self._bc(o)
        xs = self.a if len(self.a) == len(ys) else self.a * len(ys)
        if r:
            return Arr([_sop(y, x, op) for x, y in zip(xs, ys)])
        return Arr([_sop(x, y, op) for x, y in zip(xs, ys)])

    def __add__(s, o): return s._el(o, '+')
    def __radd__(s, o): return s._el(o, '+', True)
    def __sub__(s, o): return s._el(o, '-')
    def __rsub__(s, o): return s._el(o, '-', True)
    def __mul__(s, o): return s._el(o, '*')
    def __rmul__(s, o): return s._el(o, '*', True)
    def __truediv__(s, o): return s._el(o, '/')
    def __rtruediv__(s, o): return s._el(o, '/', True)

    def __pow__(s, k):
        return Arr([(v ** k) if _conc(v) else EV.of(v) ** k for v in s.a])

    def __neg__(s): return Arr([-v for v in s.a])
    def __lt__(s, o): return s._el(o, '<')
    def __le__(s, o): return s._el(o, '<=')
    def __gt__(s, o): return s._el(o, '>')
    def __ge__(s, o): return s._el(o, '>=')
    def __eq__(s, o): return s._el(o, '==')
    def __ne__(s, o): return s._el(o, '!=')
    __hash__ = None

    def __bool__(s):
        if len(s.a) != 1:
            raise ValueError("The truth value of an array with more than one element is ambiguous.")
        return bool(s.a[0])

    def __invert__(s):
        return Arr([(not v) if isinstance(v, bool) else ~v for v in s.a])

    def __and__(s, o):
        return Arr([(x and y) if isinstance(x, bool) and isinstance(y, bool) else (SB(x) if isinstance(x, bool) else x) & y
                    for x, y in zip(s.a, s._bc(o))])

    def __or__(s, o):
        return Arr([(x or y) if isinstance(x, bool) and isinstance(y, bool) else (SB(x) if isinstance(x, bool) else x) | y
                    for x, y in zip(s.a, s._bc(o))])

    def _idx(self, i):
        if isinstance(i, SV):
            i = concretize_int(i)
        if hasattr(i, '__index__') and not isinstance(i, (bool, SB)):
            return i.__index__()
        raise TypeError(type(i))

    def __getitem__(s, i):
        if isinstance(i, slice):
            return Arr(s.a[i])
        if isinstance(i, (bool, SB)):
            raise TypeError("boolean scalar index read not modelled")
        if isinstance(i, (Arr, list)) or hasattr(i, 'tolist'):
            it = _items(i)
            if it and isinstance(it[0], (bool, SB)):
                if all(isinstance(m, bool) for m in it):
                    return Arr([v for v, m in zip(s.a, it) if m])
                # symbolic mask: fork on each mask entry (shape-changing)
                return Arr([v for v, m in zip(s.a, it) if bool(m)])
            return Arr([s.a[s._idx(k)] for k in it])
        return s.a[s._idx(i)]

    def __setitem__(s, i, val):
        val = _num(val)
        if isinstance(i, slice):
            idx = range(len(s.a))[i]
            vals = _items(val) if _is_seq(val) else [val] * len(idx)
            for k, v in zip(idx, vals):
                s.a[k] = v
            return
        if isinstance(i, (bool, SB)):       # scalar boolean index: assign everywhere if true
            if isinstance(i, bool):
                if i:
                    s.a = [val] * len(s.a) if not _is_seq(val) else _items(val)
                return
            s.a = [ite(i, val, x) for x in s.a]
            return
        if isinstance(i, (Arr, list)) or (hasattr(i, 'tolist') and not isinstance(i, (int,))):
            it = _items(i)
            if not it:
                return
            if isinstance(it[0], (bool, SB)):
                if len(it) != len(s.a):
                    raise IndexError("boolean index did not match indexed array")
                vals = s._bc(val) if _is_seq(val) else [val] * len(it)
                s.a = [(v if m else x) if isinstance(m, bool) else ite(m, v, x) for m, x, v in zip(it, s.a, vals)]
                return
            vals = _items(val) if _is_seq(val) else [val] * len(it)
            for k, v in zip(it, vals):
                s.a[s._idx(k)] = v
            return
        s.a[s._idx(i)] = val

    def sum(s):
        return sum(s)

    def cumsum(s):
        return cumsum(s)

    def __repr__(s):
        return f"Arr({s.a})"


ndarray = Arr


def array(x, dtype=None):
    if isinstance(x, Arr):
        r = Arr(x.a)
    elif _is_seq(x):
        r = Arr(_items(x))
    else:
        return _num(x)      # 0-d
    if dtype in ("str", str):
        r = Arr([str(v) for v in r.a])
    return r


asarray = array


def ones(n, dtype=None): return Arr([1.0] * _int(n))
def zeros(n, dtype=None): return Arr([0.0] * _int(n))
def ones_like(x): return Arr([1.0] * len(x))
def zeros_like(x): return Arr([0.0] * len(x))


def _int(n):
    if isinstance(n, SV):
        return concretize_int(n)
    if isinstance(n, float) and n == int(n):
        return int(n)
    return n.__index__()


def arange(a, b=None, step=1, dtype=None):
    if b is None:
        a, b = 0, a
    return Arr(list(range(_int(a), _int(b), _int(step))))


def cumsum(x):
    out = []
    acc = None
    for v in _items(x):
        acc = v if acc is None else _sop(acc, v, '+')
        out.append(acc)
    return Arr(out)


def cumprod(x):
    xs = _items(x)
    if OBSERVERS:
        return _notify('cumprod', Arr(xs), lambda: _cumprod_exact(xs))
    return _cumprod_exact(xs)


def _cumprod_exact(xs):
    out = []
    acc = None
    for v in xs:
        acc = v if acc is None else _sop(acc, v, '*')
        out.append(acc)
    return Arr(out)


def insert(x, i, v):
    l = _items(x)
    l.insert(i, _num(v))
    return Arr(l)


def append(x, y):
    return Arr(_items(x) + (_items(y) if _is_seq(y) else [y]))


def roll(x, shift):
    l = _items(x)
    k = _int(shift) % len(l) if l else 0
    return Arr(l[-k:] + l[:-k]) if k else Arr(l)


def flip(x):
    return Arr(_items(x)[::-1])


def diff(x):
    l = _items(x)
    return Arr([_sop(b, a, '-') for a, b in zip(l, l[1:])])


def concatenate(xs):
    out = []
    for x in xs:
        out += _items(x)
    return Arr(out)


def tile(x, k):
    return Arr(_items(x) * _int(k))


def repeat(x, k):
    k = _int(k)
    return Arr([v for v in _items(x) for _ in range(k)])


def _pair(a, b, f):
    if _is_seq(a) or _is_seq(b):
        A = a if isinstance(a, Arr) else (Arr(_items(a)) if _is_seq(a) else None)
        B = b if isinstance(b, Arr) else (Arr(_items(b)) if _is_seq(b) else None)
        if A is not None:
            ys = A._bc(b)
            xs = A.a if len(A.a) == len(ys) else A.a * len(ys)
        else:
            xs = B._bc(a)
            ys = B.a
        return Arr([f(x, y) for x, y in zip(xs, ys)])
    return f(_num(a), _num(b))


def _cmin(x, y):
    if _conc(x) and _conc(y):
        if (isinstance(x, float) and x != x) or (isinstance(y, float) and y != y):
            return math.nan
        return x if x < y else y
    return ev_min(x, y)


def _cmax(x, y):
    if _conc(x) and _conc(y):
        if (isinstance(x, float) and x != x) or (isinstance(y, float) and y != y):
            return math.nan
        return y if x < y else x
    return ev_max(x, y)


def maximum(a, b): return _pair(a, b, _cmax)
def minimum(a, b): return _pair(a, b, _cmin)


def clip(a, lo, hi):
    return minimum(maximum(a, lo), hi)


def _fold(x, f):
    acc = None
    for v in _items(x) if _is_seq(x) else [x]:
        acc = v if acc is None else f(acc, v)
    if acc is None:
        raise ValueError("zero-size array to reduction operation which has no identity")
    return acc


def max(x, *a, **k): return _fold(x, _cmax)
def min(x, *a, **k): return _fold(x, _cmin)
amax = max
amin = min


def sum(x, *a, **k):
    if not _is_seq(x):
        x = _num(x)
        return x._sv() if isinstance(x, SB) else (int(x) if isinstance(x, bool) else x)
    acc = 0
    for v in _items(x):
        if isinstance(v, bool):
            v = int(v)
        acc = _sop(acc, v, '+')
    return acc


def mean(x, *a, **k):
    xs = _items(x)
    if not xs:
        return math.nan
    return _sop(sum(xs), len(xs), '/')


def prod(x):
    acc = 1
    for v in _items(x):
        acc = _sop(acc, v, '*')
    return acc


def isclose(a, b, rtol=1e-5, atol=1e-8):
    def one(x, y):
        if _conc(x) and _conc(y):
            x = float(x)
            y = float(y)
            if math.isnan(x) or math.isnan(y):
                return False
            if math.isinf(x) or math.isinf(y):
                return x == y
            return frac(abs(frac(x) - frac(y))) <= frac(atol) + frac(rtol) * abs(frac(y))
        x = EV.of(x)
        y = EV.of(y)
        d = abs(x - y)
        lim = EV.of(atol) + EV.of(rtol) * abs(y)
        fin = And(x.fin(), y.fin())
        return SB(_b(Or(And(fin, (d <= lim).e), And(Not(x.nan), Not(y.nan), Not(fin), x._eq(y)))))
    return _pair(a, b, one)


def _un(x, fc, fs):
    def one(v):
        v = _num(v)
        if _conc(v):
            return fc(float(v)) if not isinstance(v, Fraction) else fc(v)
        return fs(v)
    if _is_seq(x):
        return Arr([one(v) for v in _items(x)])
    return one(x)


def isfinite(x):
    return _un(x, lambda v: math.isfinite(v), lambda v: True if isinstance(v, (SV, SB)) else EV.of(v).isfinite())


def isnan(x):
    return _un(x, lambda v: math.isnan(v), lambda v: False if isinstance(v, (SV, SB)) else EV.of(v).isnan())


def isinf(x):
    return _un(x, lambda v: math.isinf(v), lambda v: False if isinstance(v, (SV, SB)) else EV.of(v).isinf())


def abs(x):
    return _un(x, lambda v: _bi.abs(v), lambda v: _bi.abs(v if isinstance(v, (EV, SV)) else EV.of(v)))


absolute = abs
_sqrt_n = [0]


def _sqrt_sym(v):
    v = EV.of(v)
    if _ev.TRACK_SUB[0] and v.sub is not None:
        _ev.SUB_EVENTS.append((v, v.sub))
    sv = z3.simplify(v.v)
    if z3.is_rational_value(sv) and isinstance(v.inf, bool) and isinstance(v.nan, bool):
        fr = Fraction(sv.numerator_as_long(), sv.denominator_as_long())
        if v.nan or (v.inf and fr < 0) or (not v.inf and fr < 0):
            return EV.of(math.nan)
        if v.inf:
            return EV.of(math.inf)
        if fr >= 0:
            n, d = fr.numerator, fr.denominator
            if math.isqrt(n) ** 2 == n and math.isqrt(d) ** 2 == d:
                return EV.of(Fraction(math.isqrt(n), math.isqrt(d)))
    ex = cur()

    def make():
        _sqrt_n[0] += 1
        sy = z3.Real(f"sqrt!{_sqrt_n[0]}")
        return sy, [z3.And(sy >= 0, sy * sy == z3.If(sv >= 0, sv, 0))]
    s = ex.define(('sqrt', sv.get_id()), make)
    neg = And(Not(v.inf), sv < 0)
    return EV(z3.If(_b(v.inf), z3.RealVal(1), s), And(v.inf, sv > 0), Or(v.nan, neg, And(v.inf, Not(sv > 0))))


def sqrt(x):
    def c(v):
        if isinstance(v, Fraction):
            v = float(v)
        return math.sqrt(v) if v >= 0 else math.nan
    return _un(x, c, _sqrt_sym)


def nan_to_num(x, nan=0.0, posinf=None, neginf=None):
    def s(v):
        v = EV.of(v)
        r = ev_ite(_b(v.nan), nan, v)
        if posinf is not None:
            r = ev_ite(_b(And(v.inf, v.v > 0)), posinf, r)
        if neginf is not None:
            r = ev_ite(_b(And(v.inf, Not(v.v > 0))), neginf, r)
        return r
    return _un(x, lambda v: (nan if v != v else v), s)


def where(c, a, b):
    def one(cc, x, y):
        if isinstance(cc, bool):
            return x if cc else y
        return ite(cc, x, y)
    cs = _items(c)
    A = a if _is_seq(a) else [a] * len(cs)
    B = b if _is_seq(b) else [b] * len(cs)
    return Arr([one(cc, x, y) for cc, x, y in zip(cs, _items(A), _items(B))])


def argmax(x):
    """index of the first maximal element; for boolean arrays: index of the first True (0 if none)"""
    xs = _items(x)
    if all(isinstance(v, (bool, SB)) for v in xs):
        if all(isinstance(v, bool) for v in xs):
            return xs.index(True) if True in xs else 0
        r = 0
        for k in range(len(xs) - 1, -1, -1):
            r = ite(xs[k], k, r) if not isinstance(xs[k], bool) else (k if xs[k] else r)
        return r
    if all(_conc(v) for v in xs):
        return _bi.max(range(len(xs)), key=lambda k: (xs[k], -k))
    best = 0
    bv = xs[0]
    for k in range(1, len(xs)):
        c = _sop(xs[k], bv, '>')
        best = ite(c, k, best)
        bv = ite(c, xs[k], bv)
    return best


def searchsorted(a, v, side="left"):
    xs = _items(a)
    if _conc(v) and all(_conc(t) for t in xs):
        import bisect
        return bisect.bisect_left(xs, v) if side == "left" else bisect.bisect_right(xs, v)
    # number of elements < v (left) or <= v (right); `a` is assumed sorted (as numpy does)
    acc = 0
    for t in xs:
        acc = _sop(acc, _sop(t, v, '<' if side == "left" else '<='), '+')
    return acc


def quantile(x, q):
    """numpy default (linear interpolation); concrete q only for symbolic data of length 1, else generic"""
    xs = _items(x)
    if all(_conc(v) for v in xs) and _conc(q):
        import numpy as _np
        return float(_np.quantile(_np.array([float(v) for v in xs]), float(q)))
    # all entries equal -> that value; otherwise an arbitrary value between the smallest and the largest entry (sound over-approximation
    # of every interpolation rule)
    first = xs[0]
    ex = cur()
    alleq = True
    for v in xs[1:]:
        if not bool(_sop(v, first, '==')):
            alleq = False
            break
    if alleq:
        return first
    _sqrt_n[0] += 1
    qv = z3.Real(f"quantile!{_sqrt_n[0]}")
    lo, hi = min(Arr(xs)), max(Arr(xs))
    ex.axiom(z3.And(qv >= EV.of(lo).v, qv <= EV.of(hi).v))
    return EV(qv)


def all(x):
    r = True
    for v in _items(x):
        r = And(r, v.e if isinstance(v, SB) else bool(v))
    return r if isinstance(r, bool) else SB(r)


def any(x):
    r = False
    for v in _items(x):
        r = Or(r, v.e if isinstance(v, SB) else bool(v))
    return r if isinstance(r, bool) else SB(r)


def floor(x):
    return _un(x, math.floor, lambda v: (_ for _ in ()).throw(NotImplementedError("floor")))


def ceil(x):
    return _un(x, math.ceil, lambda v: (_ for _ in ()).throw(NotImplementedError("ceil")))


class _Random:
    class RandomState:
        """stub: `choice` returns arbitrary elements of x chosen by the solver (the MT stream is not modelled)"""
        counter = [0]

        def __init__(self, seed=None):
            self.seed = seed

        def choice(self, x, size=None, replace=True):
            xs = _items(x)
            n = _int(size)
            out = []
            ex = cur()
            for _ in range(n):
                _Random.RandomState.counter[0] += 1
                k = z3.Int(f"choice!{_Random.RandomState.counter[0]}")
                ex.assume(z3.And(k >= 0, k < len(xs)))
                v = xs[-1]
                for j in range(len(xs) - 2, -1, -1):
                    v = ite(k == j, xs[j], v)
                out.append(v)
            return Arr(out)


random = _Random()
RandomState = _Random.RandomState


class _Testing:
    @staticmethod
    def assert_allclose(*a, **k):
        return None


testing = _Testing()


def _is_int_typed(xs):
    return len(xs) > 0 and _bi.all(isinstance(v, (bool, int)) or (isinstance(v, SV) and v.is_int()) or isinstance(v, SB) for v in xs)


def full_like(x, val, dtype=None):
    """numpy semantics: the result inherits the dtype of x - an integer-typed x truncates a float fill value"""
    xs = _items(x)
    if dtype is None and _is_int_typed(xs):
        from . import pymodel
        val = pymodel.int(val)
    return Arr([val] * len(xs))


def full(n, val, dtype=None):
    return Arr([val] * _int(n))


def empty(n, dtype=None):
    return Arr([0.0] * _int(n))


def count_nonzero(x):
    acc = 0
    xs = _items(x)
    if _bi.any(isinstance(v, str) for v in xs):
        # numpy converts the whole list to a string array: every non-empty string ('False', '0', 'marked') is non-zero
        return _bi.sum(1 for v in xs if not (isinstance(v, str) and v == ""))
    for v in xs:
        b = v if isinstance(v, (bool, SB)) else _sop(v, 0, '!=')
        acc = _sop(acc, b, '+')
    return acc


# -- integer -> float64 conversion (exact model for |v| < 2^55) ---------------------------------
def _float_of_int(v):
    """value of float(v) for a symbolic Int: exact below 2^53, round-half-even to multiples of 2 / 4 up to 2^55"""
    if not (isinstance(v, SV) and v.is_int()):
        return v
    e = v.e
    ex = cur()
    ex.assume(z3.And(e > -(2 ** 55), e < 2 ** 55))

    def rnd(s):
        q, r = e / s, e % s         # z3: floor division / non-negative remainder for positive s
        return z3.If(2 * r < s, q * s, z3.If(2 * r > s, (q + 1) * s, z3.If(q % 2 == 0, q * s, (q + 1) * s)))
    a = z3.If(e >= 0, e, -e)
    out = z3.If(a < 2 ** 53, e, z3.If(a < 2 ** 54, rnd(2), rnd(4)))
    return SV(z3.ToReal(out))


_array_plain = array


def _is_float_dtype(dtype):
    return getattr(dtype, '__name__', dtype) in ("float", "float64", "double")


def array(x, dtype=None):      # noqa: F811
    isf = _is_float_dtype(dtype)
    r = _array_plain(x, None if isf else dtype)
    if isf and isinstance(r, Arr):
        r = Arr([_float_of_int(v) if isinstance(v, SV) else (float(v) if isinstance(v, int) and not isinstance(v, bool) else v) for v in r.a])
    return r


def asarray(x, dtype=None):
    """numpy.asarray: no copy when the input is already an array of the requested type"""
    if isinstance(x, Arr) and (dtype is None or (_is_float_dtype(dtype) and not any(
            (isinstance(v, int) and not isinstance(v, bool)) or (isinstance(v, SV) and z3.is_int(v.e)) for v in x.a))):
        return x
    return array(x, dtype)


def argsort(x, kind=None, **kw):
    """stable argsort (comparisons on symbolic keys fork)"""
    xs = _items(x)
    import functools

    def cmp(i, j):
        if bool(_sop(xs[i], xs[j], '<')):
            return -1
        if bool(_sop(xs[j], xs[i], '<')):
            return 1
        return -1 if i < j else (1 if i > j else 0)
    return Arr(sorted(range(len(xs)), key=functools.cmp_to_key(cmp)))


def sort(x, **kw):
    xs = _items(x)
    idx = argsort(xs)
    return Arr([xs[i] for i in idx.a])
