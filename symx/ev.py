"""EV: the float model.  value = nan | +-inf | finite real.

IEEE-754 special-value semantics (0/0, x/0, inf-inf, inf*0, comparisons with NaN) are exact;
finite arithmetic is exact real arithmetic (no rounding, overflow, underflow, signed zero).
`v` is a z3 Real (when `inf` holds its sign gives the sign of the infinity); `inf`/`nan` are python
bools when known, else z3 Bools.
"""
import math
import z3
from fractions import Fraction
from .core import SB, SV, cur, frac, lift


def _b(x):
    return z3.BoolVal(x) if isinstance(x, bool) else x


def And(*xs):
    ys = []
    for x in xs:
        if isinstance(x, SB):
            x = x.e
        if x is False:
            return False
        if x is True:
            continue
        if z3.is_false(x):
            return False
        if z3.is_true(x):
            continue
        ys.append(x)
    if not ys:
        return True
    return ys[0] if len(ys) == 1 else z3.And(*ys)


def Or(*xs):
    ys = []
    for x in xs:
        if isinstance(x, SB):
            x = x.e
        if x is True:
            return True
        if x is False:
            continue
        if z3.is_true(x):
            return True
        if z3.is_false(x):
            continue
        ys.append(x)
    if not ys:
        return False
    return ys[0] if len(ys) == 1 else z3.Or(*ys)


def Not(x):
    if isinstance(x, SB):
        x = x.e
    if isinstance(x, bool):
        return not x
    if z3.is_true(x):
        return False
    if z3.is_false(x):
        return True
    return z3.Not(x)


def Ite(c, a, b):
    if c is True:
        return a
    if c is False:
        return b
    if isinstance(a, bool) and isinstance(b, bool):
        if a == b:
            return a
        return c if a else z3.Not(c)
    if isinstance(a, bool):
        a = z3.BoolVal(a)
    if isinstance(b, bool):
        b = z3.BoolVal(b)
    if a is b or (z3.is_expr(a) and z3.is_expr(b) and a.eq(b)):
        return a
    return z3.If(c, a, b)


def R(x):
    f = frac(x)
    return z3.Q(f.numerator, f.denominator)


ONE = z3.RealVal(1)
MONE = z3.RealVal(-1)
ZERO = z3.RealVal(0)


def _simp(e):
    return z3.simplify(e)


def _num_ite(e):
    """(cond, a, b) if e is If(cond, a, b) with numeral branches (possibly under ToReal), else None"""
    if z3.is_app(e) and e.decl().kind() == z3.Z3_OP_TO_REAL:
        e = z3.simplify(e.arg(0))
    if z3.is_app(e) and e.decl().kind() == z3.Z3_OP_ITE:
        c, a, b = e.children()
        if (z3.is_rational_value(a) or z3.is_int_value(a)) and (z3.is_rational_value(b) or z3.is_int_value(b)):
            ra = z3.ToReal(a) if z3.is_int(a) else a
            rb = z3.ToReal(b) if z3.is_int(b) else b
            return c, z3.simplify(ra), z3.simplify(rb)
    return None


def lin_mul(x, y):
    """x*y for z3 reals, keeping the product linear when one side is an indicator-like If with numeral branches"""
    for p, q in ((x, y), (y, x)):
        t = _num_ite(z3.simplify(p))
        if t is not None:
            c, a, b = t
            return z3.If(c, a * q, b * q)
    return x * y


def _bsimp(x):
    if isinstance(x, bool):
        return x
    x = z3.simplify(x)
    if z3.is_true(x):
        return True
    if z3.is_false(x):
        return False
    return x


TRACK_SUB = [False]      # rounding lint (C11): remember when a value is a difference (magnitude of its operands)
SUB_EVENTS = []          # (value, operand magnitude) pairs handed to sqrt while tracking


def _absz(e):
    return z3.If(e >= 0, e, -e)


class EV:
    __slots__ = ('v', 'inf', 'nan', 'sub')
    __array_ufunc__ = None

    def __init__(self, v, inf=False, nan=False):
        self.v = v
        self.inf = inf
        self.nan = nan
        self.sub = None

    @staticmethod
    def of(x):
        if isinstance(x, EV):
            return x
        if isinstance(x, SV):
            e = x.e
            return EV(z3.ToReal(e) if z3.is_int(e) else e)
        if isinstance(x, SB):
            return EV(z3.If(x.e, ONE, ZERO))
        if isinstance(x, bool):
            return EV(R(int(x)))
        if isinstance(x, (int, Fraction)):
            return EV(R(x))
        if isinstance(x, float):
            if x != x:
                return EV(ZERO, False, True)
            if x == math.inf:
                return EV(ONE, True, False)
            if x == -math.inf:
                return EV(MONE, True, False)
            return EV(R(x))
        if hasattr(x, 'item'):
            return EV.of(x.item())
        raise TypeError(type(x))

    @staticmethod
    def can(x):
        return isinstance(x, (EV, SV, SB, bool, int, float, Fraction)) or hasattr(x, 'item')

    # predicates as z3/py bools
    def fin(self):
        return And(Not(self.inf), Not(self.nan))

    def iszero(self):
        return And(Not(self.inf), Not(self.nan), self.v == 0)

    def is_concrete(self):
        return isinstance(self.inf, bool) and isinstance(self.nan, bool) and z3.is_rational_value(z3.simplify(self.v))

    def __add__(a, b):
        if not EV.can(b):
            return NotImplemented
        b = EV.of(b)
        if a.inf is False and b.inf is False:
            return EV(_simp(a.v + b.v), False, Or(a.nan, b.nan))
        opp = And(a.inf, b.inf, Not(_b(a.v > 0) == _b(b.v > 0)))
        nan = Or(a.nan, b.nan, opp)
        inf = And(Not(nan), Or(a.inf, b.inf))
        v = Ite(a.inf, a.v, Ite(b.inf, b.v, a.v + b.v))
        return EV(_simp(v), _bsimp(inf), _bsimp(nan))
    __radd__ = __add__

    def __neg__(a):
        return EV(_simp(-a.v), a.inf, a.nan)

    def __pos__(a):
        return a

    def __sub__(a, b):
        if not EV.can(b):
            return NotImplemented
        b = EV.of(b)
        r = a + (-b)
        if TRACK_SUB[0] and a.inf is False and b.inf is False:
            r.sub = _absz(a.v) + _absz(b.v)
        return r

    def __rsub__(a, b):
        if not EV.can(b):
            return NotImplemented
        return EV.of(b).__sub__(a)

    def __mul__(a, b):
        if not EV.can(b):
            return NotImplemented
        b = EV.of(b)
        if a.inf is False and b.inf is False:
            r = EV(_simp(lin_mul(a.v, b.v)), False, Or(a.nan, b.nan))
            if TRACK_SUB[0] and (a.sub is None) != (b.sub is None):      # a difference scaled by an ordinary value
                r.sub = (a.sub * _absz(b.v)) if a.sub is not None else (b.sub * _absz(a.v))
            return r
        nan = Or(a.nan, b.nan, And(a.inf, b.iszero()), And(b.inf, a.iszero()))
        inf = And(Not(nan), Or(a.inf, b.inf))
        sgn = Ite(_b(a.v > 0) == _b(b.v > 0), ONE, MONE)
        v = Ite(inf, sgn, a.v * b.v)
        return EV(_simp(v), _bsimp(inf), _bsimp(nan))
    __rmul__ = __mul__

    def __truediv__(a, b):
        if not EV.can(b):
            return NotImplemented
        b = EV.of(b)
        bz = _bsimp(_b(And(Not(b.inf), b.v == 0)))
        az = _bsimp(_b(And(Not(a.inf), a.v == 0)))
        if bz is False and a.inf is False and b.inf is False:
            r = EV(_simp(a.v / b.v), False, Or(a.nan, b.nan))
            if TRACK_SUB[0] and a.sub is not None and b.sub is None:
                r.sub = a.sub / _absz(b.v)
            return r
        nan = Or(a.nan, b.nan, And(a.inf, b.inf), And(az, bz))
        inf = And(Not(nan), Or(a.inf, And(bz, Not(az))))
        # x/0: sign of x (zero is +0); inf/finite: sign product; finite/inf: 0
        sgn_inf = Ite(bz, Ite(a.v > 0, ONE, MONE), Ite(_b(a.v > 0) == _b(b.v > 0), ONE, MONE))
        q = a.v / Ite(bz, ONE, b.v) if bz is not False else a.v / b.v
        v = Ite(inf, sgn_inf, Ite(b.inf, ZERO, q))
        return EV(_simp(v), _bsimp(inf), _bsimp(nan))

    def __rtruediv__(a, b):
        if not EV.can(b):
            return NotImplemented
        return EV.of(b) / a

    def __pow__(a, k):
        if isinstance(k, int) and k >= 0:
            r = EV(ONE)
            for _ in range(k):
                r = r * a
            return r
        if isinstance(k, int) and k < 0:
            return EV(ONE) / (a ** (-k))
        return NotImplemented

    # comparisons (IEEE: any ordered comparison with nan is False; != is True)
    def _lt(a, b):
        both = And(Not(a.nan), Not(b.nan))
        if a.inf is False and b.inf is False:
            return And(both, a.v < b.v)
        lt = Ite(a.inf, And(Not(_b(a.v > 0)), Not(And(b.inf, Not(_b(b.v > 0))))),
                 Ite(b.inf, _b(b.v > 0), a.v < b.v))
        return And(both, lt)

    def _eq(a, b):
        both = And(Not(a.nan), Not(b.nan))
        if a.inf is False and b.inf is False:
            return And(both, a.v == b.v)
        eq = Ite(Or(a.inf, b.inf), And(a.inf, b.inf, _b(a.v > 0) == _b(b.v > 0)), a.v == b.v)
        return And(both, eq)

    def _cmpable(a, b):
        return EV.can(b)

    def __lt__(a, b):
        if not EV.can(b): return NotImplemented
        return SB(_b(a._lt(EV.of(b))))

    def __gt__(a, b):
        if not EV.can(b): return NotImplemented
        return SB(_b(EV.of(b)._lt(a)))

    def __le__(a, b):
        if not EV.can(b): return NotImplemented
        b = EV.of(b)
        return SB(_b(Or(a._lt(b), a._eq(b))))

    def __ge__(a, b):
        if not EV.can(b): return NotImplemented
        b = EV.of(b)
        return SB(_b(Or(b._lt(a), a._eq(b))))

    def __eq__(a, b):
        if b is None or isinstance(b, str):
            return False
        if not EV.can(b): return NotImplemented
        return SB(_b(a._eq(EV.of(b))))

    def __ne__(a, b):
        if b is None or isinstance(b, str):
            return True
        if not EV.can(b): return NotImplemented
        return SB(_b(Not(a._eq(EV.of(b)))))
    __hash__ = None

    def __bool__(a):
        return cur().branch(_b(Not(a._eq(EV.of(0)))))

    def __abs__(a):
        return EV(_simp(Ite(a.inf, ONE, z3.If(a.v >= 0, a.v, -a.v))), a.inf, a.nan)

    def __repr__(a):
        return f"EV({a.v}, inf={a.inf}, nan={a.nan})"

    # helpers used by oracles
    def isnan(a):
        return SB(_b(a.nan))

    def isinf(a):
        return SB(_b(And(a.inf, Not(a.nan))))

    def isfinite(a):
        return SB(_b(a.fin()))

    def eval(a, m):
        """concrete python float/Fraction of this value in model m"""
        from .core import model_value
        nan = a.nan if isinstance(a.nan, bool) else z3.is_true(m.eval(a.nan, model_completion=True))
        if nan:
            return math.nan
        inf = a.inf if isinstance(a.inf, bool) else z3.is_true(m.eval(a.inf, model_completion=True))
        v = model_value(m, a.v)
        if inf:
            return math.inf if v > 0 else -math.inf
        return v


def ev_min(a, b):
    """np.minimum: nan propagates"""
    a = EV.of(a)
    b = EV.of(b)
    lt = a._lt(b)
    nan = Or(a.nan, b.nan)
    return EV(_simp(Ite(lt, a.v, b.v)), _bsimp(And(Not(nan), Ite(lt, a.inf, b.inf))), _bsimp(nan))


def ev_max(a, b):
    a = EV.of(a)
    b = EV.of(b)
    lt = a._lt(b)
    nan = Or(a.nan, b.nan)
    return EV(_simp(Ite(lt, b.v, a.v)), _bsimp(And(Not(nan), Ite(lt, b.inf, a.inf))), _bsimp(nan))


def ev_ite(c, a, b):
    a = EV.of(a)
    b = EV.of(b)
    if isinstance(c, SB):
        c = c.e
    if isinstance(c, bool):
        return a if c else b
    c = z3.simplify(c)
    if z3.is_true(c):
        return a
    if z3.is_false(c):
        return b
    return EV(_simp(Ite(c, a.v, b.v)), _bsimp(Ite(c, a.inf, b.inf)), _bsimp(Ite(c, a.nan, b.nan)))


def is_symbolic(x):
    return isinstance(x, (EV, SV, SB))


def in_unit(ev, lo=0, hi=1):
    """z3/py bool: value is non-nan, finite and lo <= v <= hi"""
    ev = EV.of(ev)
    return And(ev.fin(), ev.v >= R(lo), ev.v <= R(hi))
