"""z3 Real term -> exact rational function over Q (sparse polynomials), resolving If-guards with a solver."""
import z3
from fractions import Fraction as F
class P:
    __slots__=('t',)
    def __init__(s,t=None): s.t=t or {}
    @staticmethod
    def const(c): c=F(c); return P({():c} if c!=0 else {})
    @staticmethod
    def var(v): return P({((v,1),):F(1)})
    def __add__(a,b):
        r=dict(a.t)
        for m,c in b.t.items():
            v=r.get(m,0)+c
            if v==0: r.pop(m,None)
            else: r[m]=v
        return P(r)
    def __neg__(a): return P({m:-c for m,c in a.t.items()})
    def __sub__(a,b): return a+(-b)
    def __mul__(a,b):
        r={}
        for m1,c1 in a.t.items():
            d1=dict(m1)
            for m2,c2 in b.t.items():
                d=dict(d1)
                for v,e in m2: d[v]=d.get(v,0)+e
                m=tuple(sorted(d.items())); v=r.get(m,0)+c1*c2
                if v==0: r.pop(m,None)
                else: r[m]=v
        return P(r)
    def iszero(a): return not a.t
class Q:
    __slots__=('n','d')
    def __init__(s,n,d=None): s.n=n; s.d=d if d is not None else P.const(1)
    def __add__(a,b): return Q(a.n*b.d+b.n*a.d, a.d*b.d) if a.d.t!=b.d.t else Q(a.n+b.n,a.d)
    def __sub__(a,b): return Q(a.n*b.d-b.n*a.d, a.d*b.d) if a.d.t!=b.d.t else Q(a.n-b.n,a.d)
    def __mul__(a,b): return Q(a.n*b.n, a.d*b.d)
    def __truediv__(a,b): return Q(a.n*b.d, a.d*b.n)
class Undetermined(Exception):
    def __init__(s,cond): s.cond=cond
def to_q(e, decide, cache):
    """decide(cond)-> True/False/None under current assumptions"""
    k=e.get_id()
    if k in cache: return cache[k]
    r=_to_q(e,decide,cache); cache[k]=r; return r
def _to_q(e,decide,cache):
    if z3.is_rational_value(e): return Q(P.const(F(e.numerator_as_long(), e.denominator_as_long())))
    if z3.is_int_value(e): return Q(P.const(e.as_long()))
    if z3.is_const(e) and e.decl().kind()==z3.Z3_OP_UNINTERPRETED: return Q(P.var(str(e)))
    k=e.decl().kind(); ch=e.children()
    if k==z3.Z3_OP_ADD:
        r=to_q(ch[0],decide,cache)
        for c in ch[1:]: r=r+to_q(c,decide,cache)
        return r
    if k==z3.Z3_OP_SUB:
        r=to_q(ch[0],decide,cache)
        for c in ch[1:]: r=r-to_q(c,decide,cache)
        return r
    if k==z3.Z3_OP_MUL:
        r=to_q(ch[0],decide,cache)
        for c in ch[1:]: r=r*to_q(c,decide,cache)
        return r
    if k==z3.Z3_OP_UMINUS: return Q(P.const(0))-to_q(ch[0],decide,cache)
    if k==z3.Z3_OP_DIV: return to_q(ch[0],decide,cache)/to_q(ch[1],decide,cache)
    if k==z3.Z3_OP_TO_REAL: return to_q(ch[0],decide,cache)
    if k==z3.Z3_OP_ITE:
        d=decide(ch[0])
        if d is None: raise Undetermined(ch[0])
        return to_q(ch[1] if d else ch[2],decide,cache)
    raise TypeError("unsupported "+str(e.decl()))
def equal_under(a,b,assumptions,stats,depth=0):
    """decide a==b for all models of assumptions; returns (True,None) or (False, witness-assumptions)"""
    s=z3.Solver(); s.set("timeout",5000); s.add(*assumptions)
    memo={}
    def decide(c):
        key=c.get_id()
        if key in memo: return memo[key]
        stats['guard_queries']+=2
        if s.check(z3.Not(c))==z3.unsat: r=True
        elif s.check(c)==z3.unsat: r=False
        else: r=None
        memo[key]=r; return r
    try:
        qa=to_q(a,decide,{}); qb=to_q(b,decide,{})
    except Undetermined as u:
        stats['splits']+=1
        r1=equal_under(a,b,assumptions+[u.cond],stats,depth+1)
        if not r1[0]: return r1
        return equal_under(a,b,assumptions+[z3.Not(u.cond)],stats,depth+1)
    stats['normalised']+=1
    diff=qa.n*qb.d-qb.n*qa.d
    return (diff.iszero(), None if diff.iszero() else assumptions)


def identical(a, b, assumptions, stats=None, max_splits=64):
    """True if a == b as rational functions under assumptions (guards resolved by solver); False if the
    normalised residue is non-zero on some guard region; None if undecided (too many splits / unsupported)."""
    st = {'guard_queries': 0, 'splits': 0, 'normalised': 0}
    try:
        ok, where = equal_under(a, b, list(assumptions), st)
    except (TypeError, RecursionError):
        return None
    if st['splits'] > max_splits:
        return None
    return ok
