"""symx core: symbolic scalars (SB/SV), the path explorer (DFS by re-execution) and solver discipline.

Every solver call carries a wall-clock timeout.  `unknown` feasibility is treated as feasible (sound:
the final obligation carries the whole path condition).  Final obligations are discharged by a fresh
solver (`prove`), never by the incremental path solver.
"""
import time
import z3
from fractions import Fraction

FEAS_TIMEOUT_MS = 2000      # per feasibility query on a branch
PROVE_TIMEOUT_MS = 20000    # per final obligation (per portfolio member)


class PathAbort(BaseException):
    """raised to abandon the current path (infeasible prefix or harness `assume(False)`)"""


class Inconclusive(Exception):
    pass


class Stats:
    def __init__(self):
        self.paths = 0
        self.infeasible = 0
        self.feas_queries = 0
        self.feas_unknown = 0
        self.obligations = 0
        self.discharged = 0
        self.inconclusive = 0
        self.sat = 0
        self.solver_time = 0.0
        self.prove_time = 0.0
        self.concretised = 0
        self.summaries = 0
        self.norm_identities = 0

    def add(self, o):
        for k, v in vars(o).items():
            setattr(self, k, getattr(self, k) + v)

    def as_dict(self):
        d = dict(vars(self))
        d['solver_time'] = round(d['solver_time'], 3)
        d['prove_time'] = round(d['prove_time'], 3)
        return d


PATH_START_HOOKS = []      # callables run at the start of every root path (loader: restore module-level state of the code under test)


class Explorer:
    """Depth-first exploration of the feasible paths of `fn` by re-execution under a recorded prefix."""

    def __init__(self, stats=None, base=(), feas_timeout_ms=None, max_paths=200000, shared=None):
        self.decisions = []          # [choice, exhausted]
        self.pos = 0
        self.base = list(base)       # assumptions inherited (nested explorers)
        self.solver = None
        self.pc = []                 # path condition of the current path (including assumptions)
        self.memo = {}               # per-path: term id -> decided bool
        self.stats = stats if stats is not None else Stats()
        self.feas_timeout_ms = feas_timeout_ms or FEAS_TIMEOUT_MS
        self.max_paths = max_paths
        self.aux = []                # auxiliary axioms (sqrt definitions ...) of the current path
        self.decs = []               # branch conditions decided on the current path (subset of pc)
        self.tags = {}               # free-form per-path notes from models (e.g. cumprod cut points)
        self._own_shared = shared is None
        self.shared = {} if shared is None else shared   # per ROOT path: definitional symbols shared with nested explorers

    # -- solver helpers -------------------------------------------------------------------------
    def _new_solver(self):
        s = z3.Solver()
        s.set("timeout", self.feas_timeout_ms)
        for c in self.base:
            s.add(c)
        return s

    def _check(self, *extra):
        t = time.time()
        self.stats.feas_queries += 1
        r = self.solver.check(*extra)
        self.stats.solver_time += time.time() - t
        if r == z3.unknown:
            self.stats.feas_unknown += 1
        return r

    def assume(self, cond):
        """add an assumption to the current path (before the code it constrains runs)"""
        if isinstance(cond, SB):
            cond = cond.e
        if cond is True:
            return
        if cond is False:
            raise PathAbort("assume(False)")
        self.solver.add(cond)
        self.pc.append(cond)

    def axiom(self, cond):
        """definitional axiom for a fresh symbol (always satisfiable extension)"""
        if any(cond is a for a in self.aux):
            return
        self.solver.add(cond)
        self.pc.append(cond)
        self.aux.append(cond)

    def define(self, key, make):
        """symbol defined once per root path (shared with nested explorers); make() -> (symbol, [axioms])"""
        if key not in self.shared:
            self.shared[key] = make()
        sym, axs = self.shared[key]
        for a in axs:
            self.axiom(a)
        return sym

    def branch(self, cond):
        """decide a symbolic condition, forking when both sides are feasible"""
        if isinstance(cond, bool):
            return cond
        cond = z3.simplify(cond)
        if z3.is_true(cond):
            return True
        if z3.is_false(cond):
            return False
        key = cond.get_id()
        if key in self.memo:
            return self.memo[key][0]
        if self.pos < len(self.decisions):
            choice = self.decisions[self.pos][0]
        else:
            rt = self._check(cond)
            rf = self._check(z3.Not(cond))
            can_t = rt != z3.unsat
            can_f = rf != z3.unsat
            if can_t and can_f:
                self.decisions.append([True, False])
                choice = True
            elif can_t:
                self.decisions.append([True, True])
                choice = True
            elif can_f:
                self.decisions.append([False, True])
                choice = False
            else:
                raise PathAbort("infeasible")
        self.pos += 1
        c = cond if choice else z3.Not(cond)
        self.solver.add(c)
        self.pc.append(c)
        self.decs.append(c)
        # the terms are stored with the decision so that their ast ids stay allocated (ids of freed terms are reused by z3)
        self.memo[key] = (choice, cond)
        ncond = z3.simplify(z3.Not(cond))
        self.memo[ncond.get_id()] = (not choice, ncond)
        return choice

    def _next(self):
        while self.decisions and self.decisions[-1][1]:
            self.decisions.pop()
        if not self.decisions:
            return False
        self.decisions[-1] = [not self.decisions[-1][0], True]
        return True

    def run(self, fn):
        """fn(explorer) is executed once per feasible path; returns number of completed paths"""
        global CUR
        n = 0
        prev = CUR
        try:
            while True:
                self.pos = 0
                self.solver = self._new_solver()
                self.pc = []
                self.memo = {}
                self.aux = []
                self.decs = []
                self.tags = {}
                if self._own_shared:
                    self.shared.clear()
                CUR = self
                if prev is None:      # a new root path starts from the state of a fresh process
                    for hook in list(PATH_START_HOOKS):
                        hook()
                try:
                    fn(self)
                    n += 1
                    self.stats.paths += 1
                except PathAbort:
                    self.stats.infeasible += 1
                finally:
                    CUR = prev
                if n > self.max_paths:
                    raise Inconclusive("path budget exceeded")
                if not self._next():
                    break
        finally:
            CUR = prev
        return n

    # -- final obligations ----------------------------------------------------------------------
    def full_pc(self):
        return list(self.base) + list(self.pc)

    def prove(self, claim, timeout_ms=None):
        """Is `claim` valid under the path condition?  -> ('unsat', None) | ('sat', model) | ('unknown', None)"""
        if isinstance(claim, SB):
            claim = claim.e
        if claim is True:
            self.stats.obligations += 1
            self.stats.discharged += 1
            return 'unsat', None
        if claim is False:
            claim = z3.BoolVal(False)
        return prove(self.full_pc(), claim, self.stats, timeout_ms)

    def witness(self, cond=None, timeout_ms=None):
        """reachability twin: a model of the path condition (and cond)"""
        s = z3.Solver()
        s.set("timeout", timeout_ms or PROVE_TIMEOUT_MS)
        for c in self.full_pc():
            s.add(c)
        if cond is not None:
            s.add(cond.e if isinstance(cond, SB) else cond)
        t = time.time()
        r = s.check()
        self.stats.prove_time += time.time() - t
        return (str(r), s.model() if r == z3.sat else None)


def _mk_solvers(nonlinear):
    """portfolio, cheapest first.  Measured on the abstracted C11 queries: the plain `smt` tactic answers in 0.02 s where
    nlsat (QF_NRA) and the default solver time out at 15 s; on genuinely polynomial obligations QF_NRA is the one that answers."""
    if nonlinear:
        return [(lambda: z3.Tactic("smt").solver(), 0.25), (lambda: z3.SolverFor("QF_NRA"), 1.0), (lambda: z3.Solver(), 1.0)]
    return [(lambda: z3.Solver(), 1.0)]


def _is_nonlinear(fs):
    # cheap syntactic test: any multiplication/division of two non-numerals
    seen = set()
    stack = list(fs)
    while stack:
        e = stack.pop()
        i = e.get_id()
        if i in seen:
            continue
        seen.add(i)
        if z3.is_app(e):
            k = e.decl().kind()
            ch = e.children()
            if k in (z3.Z3_OP_MUL,):
                if sum(0 if (z3.is_rational_value(c) or z3.is_int_value(c)) else 1 for c in ch) >= 2:
                    return True
            if k in (z3.Z3_OP_DIV,) and not (z3.is_rational_value(ch[1]) or z3.is_int_value(ch[1])):
                return True
            if k in (z3.Z3_OP_POWER,):
                return True
            stack.extend(ch)
    return False


def _has_int(fs):
    seen = set()
    stack = list(fs)
    while stack:
        e = stack.pop()
        i = e.get_id()
        if i in seen:
            continue
        seen.add(i)
        if z3.is_int(e) and not z3.is_int_value(e):
            return True
        stack.extend(e.children())
    return False


def prove(assumptions, claim, stats, timeout_ms=None):
    """fresh-solver validity check of `claim` under `assumptions` with a small portfolio"""
    timeout_ms = timeout_ms or PROVE_TIMEOUT_MS
    stats.obligations += 1
    fs = list(assumptions) + [z3.Not(claim)]
    nl = _is_nonlinear(fs) and not _has_int(fs)
    result = 'unknown'
    # two rounds: the stated budget, then (only if still undecided) three times the budget with another random seed - z3's
    # answer time on the same query varies by an order of magnitude between runs and seeds
    for rnd, mult in ((0, 1), (1, 3)):
        for mk, share in _mk_solvers(nl):
            s = mk()
            s.set("timeout", max(500, int(timeout_ms * share * mult)))
            if rnd:
                try:
                    s.set("random_seed", 17)
                except z3.Z3Exception:
                    pass
            for f in fs:
                s.add(f)
            t = time.time()
            try:
                r = s.check()
            except z3.Z3Exception:
                r = z3.unknown
            stats.prove_time += time.time() - t
            if r == z3.unsat:
                stats.discharged += 1
                return 'unsat', None
            if r == z3.sat:
                stats.sat += 1
                return 'sat', s.model()
    stats.inconclusive += 1
    return result, None


CUR = None


def cur():
    if CUR is None:
        raise RuntimeError("symbolic branch outside an exploration")
    return CUR


# ---------------------------------------------------------------------------------------------
def frac(x):
    """exact Fraction of a python number"""
    if isinstance(x, Fraction):
        return x
    if isinstance(x, bool):
        return Fraction(int(x))
    if isinstance(x, int):
        return Fraction(x)
    if isinstance(x, float):
        return Fraction(x)
    if hasattr(x, 'item'):
        return frac(x.item())
    raise TypeError(type(x))


def lift(x):
    """python/SV value -> z3 arithmetic or boolean term"""
    if isinstance(x, SV):
        return x.e
    if isinstance(x, SB):
        return x.e
    if isinstance(x, bool):
        return z3.BoolVal(x)
    if isinstance(x, int):
        return z3.IntVal(x)
    if isinstance(x, (float, Fraction)):
        f = frac(x)
        return z3.Q(f.numerator, f.denominator)
    if hasattr(x, 'item'):
        return lift(x.item())
    raise TypeError(type(x))


def _arith(a, b):
    """coerce two z3 arithmetic terms to a common sort"""
    if z3.is_bool(a):
        a = z3.If(a, z3.IntVal(1), z3.IntVal(0))
    if z3.is_bool(b):
        b = z3.If(b, z3.IntVal(1), z3.IntVal(0))
    if z3.is_int(a) and z3.is_real(b):
        a = z3.ToReal(a)
    elif z3.is_real(a) and z3.is_int(b):
        b = z3.ToReal(b)
    return a, b


class SB:
    """symbolic Boolean"""
    __slots__ = ('e',)
    __array_ufunc__ = None

    def __init__(self, e):
        self.e = e if not isinstance(e, bool) else z3.BoolVal(e)

    def __bool__(self):
        return cur().branch(self.e)

    def __and__(self, o):
        return SB(z3.And(self.e, lift(o) if not isinstance(o, bool) else z3.BoolVal(o)))
    __rand__ = __and__

    def __or__(self, o):
        return SB(z3.Or(self.e, lift(o) if not isinstance(o, bool) else z3.BoolVal(o)))
    __ror__ = __or__

    def __invert__(self):
        return SB(z3.Not(self.e))

    def __eq__(self, o):
        if isinstance(o, (SB, bool)):
            return SB(self.e == lift(o))
        if isinstance(o, (int, SV)):
            return SV(z3.If(self.e, 1, 0)) == o
        return NotImplemented

    def __ne__(self, o):
        r = self.__eq__(o)
        return r if r is NotImplemented else ~r
    __hash__ = None

    # arithmetic use of a bool (int(bool(v)), sums of masks)
    def _sv(self):
        return SV(z3.If(self.e, z3.IntVal(1), z3.IntVal(0)))

    def __add__(self, o): return self._sv() + o
    def __radd__(self, o): return o + self._sv()
    def __sub__(self, o): return self._sv() - o
    def __rsub__(self, o): return o - self._sv()
    def __mul__(self, o): return self._sv() * o
    def __rmul__(self, o): return o * self._sv()
    def __truediv__(self, o): return self._sv() / o
    def __rtruediv__(self, o): return o / self._sv()
    def __int__(self): raise TypeError("use the int shadow")
    def __lt__(self, o): return self._sv() < o
    def __le__(self, o): return self._sv() <= o
    def __gt__(self, o): return self._sv() > o
    def __ge__(self, o): return self._sv() >= o
    def __neg__(self): return -self._sv()
    def __index__(self): return 1 if bool(self) else 0

    def __repr__(self):
        return f"SB({self.e})"


def _numeral(e):
    return z3.is_int_value(e) or z3.is_rational_value(e)


def _fold_ite(f, a, b):
    """f(a, b) with a numeral pushed into the branches of an If whose branches are numerals (keeps flag arithmetic linear)"""
    a, b = z3.simplify(a), z3.simplify(b)
    for k, (p, q) in enumerate(((a, b), (b, a))):
        if z3.is_app(p) and p.decl().kind() == z3.Z3_OP_ITE and _numeral(q):
            c, x, y = p.children()
            if _numeral(x) and _numeral(y):
                return z3.If(c, f(x, q) if k == 0 else f(q, x), f(y, q) if k == 0 else f(q, y))
    return f(a, b)


def _lmul(a, b):
    """product that stays linear when one factor is an If with numeral branches (indicator of a flag)"""
    for p, q in ((a, b), (b, a)):
        p = z3.simplify(p)
        if z3.is_app(p) and p.decl().kind() == z3.Z3_OP_ITE:
            c, x, y = p.children()
            if (z3.is_int_value(x) or z3.is_rational_value(x)) and (z3.is_int_value(y) or z3.is_rational_value(y)):
                return z3.If(c, x * q, y * q)
    return a * b


class SV:
    """symbolic integer or real (no IEEE specials; see ev.EV for floats)"""
    __slots__ = ('e',)
    __array_ufunc__ = None

    def __init__(self, e):
        self.e = e

    def is_int(self):
        return z3.is_int(self.e)

    def _bin(self, o, f, r=False):
        if isinstance(o, SB):
            o = o._sv()
        if isinstance(o, (SV, int, float, bool, Fraction)) or hasattr(o, 'item'):
            a, b = _arith(self.e, lift(o))
            if r:
                a, b = b, a
            return SV(z3.simplify(_fold_ite(f, a, b)))
        return NotImplemented

    def __add__(s, o): return s._bin(o, lambda a, b: a + b)
    def __radd__(s, o): return s._bin(o, lambda a, b: a + b, True)
    def __sub__(s, o): return s._bin(o, lambda a, b: a - b)
    def __rsub__(s, o): return s._bin(o, lambda a, b: a - b, True)
    def __mul__(s, o): return s._bin(o, _lmul)
    def __rmul__(s, o): return s._bin(o, _lmul, True)

    def __truediv__(s, o):
        if isinstance(o, (SV, SB, int, float, bool, Fraction)):
            from .ev import EV
            return EV.of(s) / EV.of(o)
        return NotImplemented

    def __rtruediv__(s, o):
        if isinstance(o, (SV, SB, int, float, bool, Fraction)):
            from .ev import EV
            return EV.of(o) / EV.of(s)
        return NotImplemented

    def __floordiv__(s, o):
        if isinstance(o, int) and o > 0 and s.is_int():
            return SV(s.e / o)      # z3 Int division is floor division for positive divisors
        return NotImplemented

    def __mod__(s, o):
        if isinstance(o, int) and o > 0 and s.is_int():
            return SV(s.e % o)
        return NotImplemented

    def __neg__(s): return SV(-s.e)
    def __pos__(s): return s

    def __abs__(s): return SV(z3.If(s.e >= 0, s.e, -s.e))

    def __pow__(s, o):
        if isinstance(o, int) and o >= 0:
            r = SV(z3.IntVal(1) if s.is_int() else z3.RealVal(1))
            for _ in range(o):
                r = r * s
            return r
        return NotImplemented

    def _cmp(self, o, f):
        if isinstance(o, SB):
            o = o._sv()
        if isinstance(o, (SV, int, float, bool, Fraction)) or hasattr(o, 'item'):
            if isinstance(o, float) and (o != o or o in (float('inf'), float('-inf'))):
                from .ev import EV
                x, y = EV.of(self), EV.of(o)
                return f(x, y)      # the same python operator on the float model
            a, b = _arith(self.e, lift(o))
            return SB(f(a, b))
        return NotImplemented

    def __lt__(s, o): return s._cmp(o, lambda a, b: a < b)
    def __le__(s, o): return s._cmp(o, lambda a, b: a <= b)
    def __gt__(s, o): return s._cmp(o, lambda a, b: a > b)
    def __ge__(s, o): return s._cmp(o, lambda a, b: a >= b)

    def __eq__(s, o):
        if o is None or isinstance(o, str):
            return False
        return s._cmp(o, lambda a, b: a == b)

    def __ne__(s, o):
        if o is None or isinstance(o, str):
            return True
        return s._cmp(o, lambda a, b: a != b)
    __hash__ = None

    def __bool__(s):
        return cur().branch(s.e != 0)

    def __index__(s):
        return concretize_int(s)

    def __repr__(s):
        return f"SV({s.e})"


def concretize_int(sv, lo=None, hi=None):
    """fork over the feasible concrete values of a symbolic Int (used where it sizes a container)"""
    ex = cur()
    e = z3.simplify(sv.e if isinstance(sv, SV) else sv)
    if z3.is_int_value(e):
        return e.as_long()
    r = ex._check()
    if r != z3.sat:
        raise PathAbort("cannot concretise")
    m = ex.solver.model()
    v = m.eval(e, model_completion=True).as_long()
    # try candidate values in increasing order from the model value's neighbourhood: simple fork on equality
    if ex.branch(e == v):
        return v
    return concretize_int(sv)


def ite(c, a, b):
    """symbolic if-then-else on python/SV/SB values (numbers only)"""
    if isinstance(c, SB):
        c = c.e
    if isinstance(c, bool):
        return a if c else b
    c = z3.simplify(c)
    if z3.is_true(c):
        return a
    if z3.is_false(c):
        return b
    from .ev import EV, ev_ite
    if isinstance(a, EV) or isinstance(b, EV) or any(isinstance(v, float) and (v != v or abs(v) == float('inf')) for v in (a, b)):
        return ev_ite(c, a, b)
    if isinstance(a, (SB, bool)) and isinstance(b, (SB, bool)):
        return SB(z3.If(c, lift(a), lift(b)))
    if a is b:
        return a
    x, y = _arith(lift(a), lift(b))
    return SV(z3.If(c, x, y))


def model_value(m, e):
    """python value (Fraction/int/bool) of term e in model m"""
    v = m.eval(e, model_completion=True)
    if z3.is_int_value(v):
        return v.as_long()
    if z3.is_rational_value(v):
        return Fraction(v.numerator_as_long(), v.denominator_as_long())
    if z3.is_true(v):
        return True
    if z3.is_false(v):
        return False
    if z3.is_algebraic_value(v):
        a = v.approx(30)
        return Fraction(a.numerator_as_long(), a.denominator_as_long())
    raise ValueError(f"cannot read model value {v}")
