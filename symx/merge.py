"""Merging at pure functions: run a call in a nested exploration and join the per-path results into If-terms."""
import z3
from . import core, npmodel
from .core import SB, SV, Explorer
from .ev import EV, ev_ite


class CannotMerge(Exception):
    pass


def _merge_vals(gv):
    """gv: list of (guard z3 bool, value) with exhaustive, mutually exclusive guards"""
    vals = [v for _, v in gv]
    v0 = vals[0]
    if len(gv) == 1:
        return v0
    if isinstance(v0, npmodel.Arr):
        n = len(v0)
        if not all(isinstance(v, npmodel.Arr) and len(v) == n for v in vals):
            raise CannotMerge("array shapes differ")
        return npmodel.Arr([_merge_vals([(g, v.a[i]) for g, v in gv]) for i in range(n)])
    if isinstance(v0, (tuple, list)):
        if not all(isinstance(v, type(v0)) and len(v) == len(v0) for v in vals):
            raise CannotMerge("sequence shapes differ")
        return type(v0)(_merge_vals([(g, v[i]) for g, v in gv]) for i in range(len(v0)))
    if all(isinstance(v, (SB, bool)) for v in vals):
        if all(isinstance(v, bool) for v in vals) and all(v == v0 for v in vals):
            return v0
        r = vals[-1] if isinstance(vals[-1], SB) else SB(z3.BoolVal(vals[-1]))
        for g, v in reversed(gv[:-1]):
            v = v if isinstance(v, SB) else SB(z3.BoolVal(v))
            r = SB(z3.simplify(z3.If(g, v.e, r.e)))
        return r
    if all(isinstance(v, (SV, int)) and not isinstance(v, bool) for v in vals) and all(
            (not isinstance(v, SV)) or v.is_int() for v in vals):
        if all(isinstance(v, int) for v in vals) and all(v == v0 for v in vals):
            return v0
        r = vals[-1]
        for g, v in reversed(gv[:-1]):
            r = core.ite(g, v, r)
        return r
    if all(isinstance(v, (EV, SV, int, float)) or hasattr(v, 'numerator') for v in vals):
        if all(not isinstance(v, (EV, SV)) for v in vals) and all(v == v0 for v in vals):
            return v0
        r = EV.of(vals[-1])
        for g, v in reversed(gv[:-1]):
            r = ev_ite(g, EV.of(v), r)
        return r
    if all(v is v0 for v in vals):
        return v0
    try:
        if all(v == v0 for v in vals):
            return v0
    except Exception:
        pass
    raise CannotMerge("cannot merge values of type " + str(type(v0)))


class Raised:
    def __init__(self, exc):
        self.exc = exc


def summarize(fn, *a, _base=None, **k):
    """list of (guard, value-or-Raised) for the call fn(*a, **k) under the current path condition
    (or under the explicit assumptions `_base`, which makes the summary reusable on every path that implies them)"""
    parent = core.cur()
    child = Explorer(stats=parent.stats, base=(parent.full_pc() if _base is None else list(_base)), feas_timeout_ms=parent.feas_timeout_ms,
                     shared=(parent.shared if _base is None else {}))
    res = []

    def body(e):
        try:
            r = fn(*a, **k)
        except Exception as exc:      # noqa: only Exception - PathAbort is BaseException
            r = Raised(exc)
        # keep auxiliary axioms (sqrt symbols) alive in the parent
        # guard = branch decisions (and harness assumptions made inside the call); definitional axioms are kept apart
        g = [c for c in e.pc if not any(c is a for a in e.aux)]
        res.append((z3.And(*g) if g else z3.BoolVal(True), r, list(e.aux)))
    child.run(body)
    parent.stats.summaries += 1
    return res


def merged_call(fn, *a, _base=None, **k):
    """call fn with all internal forks merged into If-terms; exceptions on some paths become forks in the parent"""
    parent = core.cur()
    res = summarize(fn, *a, _base=_base, **k)
    if not res:
        raise core.PathAbort("no feasible path through summarised call")
    for _, _, aux in res:
        for ax in aux:
            parent.axiom(ax)
    raising = [(g, r) for g, r, _ in res if isinstance(r, Raised)]
    normal = [(g, r) for g, r, _ in res if not isinstance(r, Raised)]
    for g, r in raising:
        if parent.branch(g):
            raise r.exc
    if not normal:
        raise core.PathAbort("all paths raised")
    # strip aux axioms from guards is unnecessary: they are implied in the parent now
    return _merge_vals(normal)


def merged(fn):
    def w(*a, **k):
        return merged_call(fn, *a, **k)
    w.__name__ = getattr(fn, '__name__', 'merged')
    w.__wrapped__ = fn
    return w
