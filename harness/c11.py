"""C11 - reported p-values are well formed and the overall value matches the history."""
import math
from fractions import Fraction as F

import z3

from symx import core, merge, npmodel
from symx.ev import EV, And, Or, Not, _b, in_unit, R
from . import nnm

PROPERTY = "C11"
META = dict(
    files=nnm.FILES,
    functions=["NonnegMean.alpha_mart", "betting_mart", "kaplan_kolmogorov", "kaplan_markov", "kaplan_wald", "wald_sprt", "sjm",
               "fixed_alternative_mean", "shrink_trunc", "optimal_comparison", "fixed_bet", "agrapa", "welford_mean_var"],
    explanation="NonnegMean.test(x) of every shipped test/estimator/bet is executed symbolically from the real source with the sample "
                "x_1..x_n (each in [0,u]) and every tuning parameter as z3 reals over their documented ranges; the float model tracks "
                "NaN/inf exactly. Claims per configuration: len(history)=n, every entry and the overall p finite, not NaN, in [0,1]; "
                "overall = min(history) (random order) or history[-1]; no exception. Rounding cells: where a value handed to numpy.sqrt is a "
                "difference a - b (possibly scaled), the solver looks for inputs with a - b < 2^-50 (|a|+|b|); such a candidate is confirmed "
                "on the real code (the model's sample, then constant non-dyadic samples) and reported only if the history contains NaN.",
    bounds={"quick": {"n": "1, 2, 3 (kaplan_kolmogorov also 4)", "N": "n, n+1, n+3, 50, inf", "ut": ["plur", "super", "cmp10"]},
            "thorough": {"n": "1..5 (shrink_trunc, agrapa: 1..3)", "N": "n, n+1, n+3, 50, inf", "ut": list(nnm.UT)}},
    outside=["samples longer than the bound", "floating-point rounding, overflow and underflow (exact reals + IEEE specials) other than the root-of-a-cancelling-difference pattern",
             "u,t outside the grid"],
    assumptions=["eta in (t,u); c,d,minsd > 0; f >= 0; lam in [0,1/u] for fixed_bet (free for agrapa); c_grapa_0 <= c_grapa_max in (0,1); "
                 "c_grapa_grow >= 0; g in [0,1) (kaplan_wald: [0,1]); rate_error_2 in [0,1]",
                 "documented refusals are not violations: wald_sprt with finite N and random_order=False (ValueError), kaplan_kolmogorov with N=inf"],
    trusted=["float model = exact reals + IEEE special values"],
)


def cells(tier):
    out = []
    ns = [1, 2, 3] if tier == "quick" else [1, 2, 3, 4, 5]
    for m in nnm.METHODS:
        for n in (ns + [4] if (tier == "quick" and m[0] == "kaplan_kolmogorov") else ns):      # (0*inf needs four draws; these cells are cheap)
            if tier == "thorough" and n >= 4 and m[2] in ("shrink_trunc", "agrapa"):
                continue
            for N in nnm.n_grid(m, n):
                for ut in nnm.ut_grid(m, tier):
                    for ro in (True, False):
                        if m[0] == "wald_sprt" and N != "inf" and not ro:
                            continue   # documented refusal
                        fixed = {}
                        if m[2] == "shrink_trunc":
                            fixed = {"d": 100 if n % 2 else 1}
                            if tier == "quick":
                                fixed["f"] = 0 if N != "inf" else 1
                        out.append(dict(method=list(m), n=n, N=N, ut=ut, ro=ro, fixed=fixed))
    # rounding: a square root taken of a difference of nearly equal quantities can be NaN in double precision although the
    # exact value is >= 0 (the model's reals cannot see that; this clause looks for the pattern and confirms on the real code)
    for m in nnm.METHODS:
        if m[2] in ("shrink_trunc", "agrapa"):
            for N in ("inf", 5):
                out.append(dict(kind="rounding", method=list(m), n=3, N=N, ut="plur", ro=True, fixed={}))
    return out


def _explore(cell, mode, stats):
    ex = core.Explorer(stats=stats)
    findings = []
    samples = []
    state = {'reach': 0, 'open': 0}

    def harness(ex):
        inst = nnm.build(ex, cell)
        n = cell["n"]
        k = nnm.split_by_first_irregular(ex, nnm.regular_conds(inst)) if mode == "abstract" else None
        cut = nnm.Cut(inst, mode, k=k)
        try:
            with cut:
                p, hist = merge.merged_call(inst.T.test, inst.x)
        except Exception as e:      # noqa
            r, m = ex.witness()
            if r == 'sat':
                findings.append(dict(clause="exception", cell=cell, inputs=nnm.model_inputs(m, inst), observed=repr(e)))
            elif r != 'unsat':
                ex.stats.inconclusive += 1
            return
        state['reach'] += 1
        if cut.failed:
            state['open'] += 1
        hs = list(hist)
        claims = []
        if len(hs) != n:
            claims.append(("length", False))
        for j, hj in enumerate(hs):
            claims.append((f"range history[{j}]", in_unit(hj)))
        claims.append(("range overall", in_unit(p)))
        if hs:
            pe = EV.of(p)
            if cell["ro"]:
                claims.append(("overall=min(history)", EV.of(npmodel.min(npmodel.Arr(hs)))._eq(pe)))
            else:
                claims.append(("overall=history[-1]", EV.of(hs[-1])._eq(pe)))
        for name, c in claims:
            if mode == "abstract":
                before = (ex.stats.inconclusive, ex.stats.sat, ex.stats.obligations)
                r, m = ex.prove(_b(c), timeout_ms=10000)
                if r != 'unsat':
                    state['open'] += 1
                    ex.stats.inconclusive, ex.stats.sat, ex.stats.obligations = before      # decided (or not) by the exact stage
            else:
                r, m = ex.prove(_b(c))
                if r == 'sat':
                    findings.append(dict(clause=name, cell=cell, inputs=nnm.model_inputs(m, inst)))
        if not samples:
            r, m = ex.witness(timeout_ms=5000)
            if r == 'sat':
                samples.append(dict(cell=nnm.method_id(cell["method"]) + f" n={n} N={cell['N']} {cell['ut']} ro={cell['ro']}",
                                    stage=mode, reachable_with=nnm.model_inputs(m, inst)))
    ex.run(harness)
    return findings, samples, state


EPS = F(1, 2 ** 50)


def _rounding(cell, stats):
    from symx import ev as _ev
    ex = core.Explorer(stats=stats)
    findings, samples = [], []
    st = {'reach': 0}

    def harness(ex):
        inst = nnm.build(ex, cell)
        _ev.SUB_EVENTS.clear()
        _ev.TRACK_SUB[0] = True
        try:
            rule = inst.T.estim if cell["method"][1] == "estim" else inst.T.bet
            rule(inst.x)
        except core.PathAbort:
            raise
        except Exception:      # noqa  (exceptions are the business of the other cells)
            return
        finally:
            _ev.TRACK_SUB[0] = False
        st['reach'] += 1
        for v, mag in list(_ev.SUB_EVENTS):
            # the difference must clear the rounding error of its operands, or be one the code never takes a root of
            r, m = ex.prove(z3.Implies(_b(v.fin()), v.v >= R(EPS) * mag), timeout_ms=20000)
            if r == 'sat':
                findings.append(dict(clause="no square root of a cancelling difference (NaN by rounding)", cell=cell,
                                     inputs=nnm.model_inputs(m, inst), advisory=True))
                if len(findings) >= 3:
                    break
            elif r != 'unsat':      # an undecided lint query claims nothing
                ex.stats.inconclusive -= 1
                ex.stats.obligations -= 1
        if not samples:
            samples.append(dict(cell="rounding " + nnm.method_id(cell["method"]) + f" N={cell['N']}", roots_of_differences_seen=len(_ev.SUB_EVENTS)))
    ex.run(harness)
    return findings, samples, st


def run_cell(cell):
    stats = core.Stats()
    if cell.get("kind") == "rounding":
        findings, samples, st = _rounding(cell, stats)
        return dict(stats=stats.as_dict(), findings=findings[:3], samples=samples, notes=[], vacuous=(st['reach'] == 0))
    findings, samples, st = _explore(cell, "abstract", stats)
    notes = []
    if st['open'] or findings:
        # the cut did not settle the cell: decide it on the exact products
        findings, samples2, st2 = _explore(cell, "exact", stats)
        samples = samples or samples2
        st['reach'] += st2['reach']
        notes.append(f"exact stage used for {nnm.method_id(cell['method'])} n={cell['n']} N={cell['N']} {cell['ut']}")
    return dict(stats=stats.as_dict(), findings=findings, samples=samples, notes=notes,
                vacuous=(st['reach'] == 0 and not findings))


def replay(f):
    import numpy as np
    cell = f["cell"]
    inp = f["inputs"]
    T, _ = nnm.real_instance(cell, inp)
    x = np.array([nnm.fl(v) for v in inp["x"]])
    if cell.get("kind") == "rounding":
        # confirm on the real code: the model's sample first, then constant samples of non-dyadic values (where cancellation bites)
        u = float(T.u)
        if math.isfinite(T.N):
            T.N = max(T.N, 50)      # room for the longer constant samples
        cands = [x] + [np.full(k, c * u) for c in (0.1, 0.3, 0.6, 0.7, 1 / 3, 0.55, 0.9) for k in (len(x), 4, 5, 6, 12) if k <= T.N]
        for xx in cands:
            with np.errstate(all="ignore"):
                try:
                    p, hist = T.test(xx)
                except Exception as e:      # noqa
                    continue
            hist = np.asarray(hist, dtype=float)
            if np.any(np.isnan(hist)) or math.isnan(float(p)):
                return dict(reproduced=True, detail=f"NaN in the history for x={xx.tolist()}: p={float(p)} history={hist.tolist()}")
        return dict(reproduced=False, detail="no NaN on the real code for the candidate samples")
    try:
        with np.errstate(all="ignore"):
            p, hist = T.test(x)
    except Exception as e:      # noqa
        return dict(reproduced=True, detail=f"test raised {e!r} on x={x.tolist()}")
    hist = np.asarray(hist, dtype=float)
    bad = []
    if len(hist) != len(x):
        bad.append(f"len(history)={len(hist)} != {len(x)}")
    if np.any(np.isnan(hist)) or np.any(hist < 0) or np.any(hist > 1):
        bad.append(f"history entry outside [0,1] or NaN: {hist.tolist()}")
    pf = float(p)
    if math.isnan(pf) or pf < 0 or pf > 1:
        bad.append(f"overall p={pf}")
    want = float(np.min(hist)) if cell["ro"] else float(hist[-1])
    if not (math.isnan(pf) or math.isnan(want)) and abs(pf - want) > 1e-9 * max(1, abs(want)):
        bad.append(f"overall p={pf} but {'min(history)' if cell['ro'] else 'history[-1]'}={want}; history={hist.tolist()}")
    return dict(reproduced=bool(bad), detail="; ".join(bad) or f"held: p={pf} history={hist.tolist()}")
