"""C06 - data handed to a test always lie inside the bound the test is told."""
import itertools
from fractions import Fraction as F

import z3

from symx import core, npmodel, merge
from symx.core import SB, SV, model_value
from symx.ev import EV, And, Or, Not, _b, R
from . import aud, c03

PROPERTY = "C06"
META = dict(
    files=["shangrla/core/Audit.py", "shangrla/core/NonnegMean.py"],
    functions=["Assertion.mvrs_to_data", "Assertion.set_p_values", "Assertion.set_margin_from_cvrs", "Assertion.overstatement_assorter",
               "Assorter.overstatement", "Assorter.set_tally_pool_means", "CVR.rcv_lfunc_wo", "CVR.rcv_votefor_cand"],
    explanation="K sampled card pairs with symbolic marks, 'lists the contest' bits, phantom flags, sample numbers and a symbolic contest "
                "threshold; the margin is whatever the real code computes from the symbolic CVRs (assumed > 0). Claims per path: every "
                "datum returned by mvrs_to_data is finite and in [0, u_ret]; u_ret is the assorter bound (polling) or 2/(2 - v/u_a) "
                "(comparison, ONEAudit); set_p_values installs test.u = u_ret before the (recording stub) test runs and hands it the same "
                "data; under style-based comparison exactly the cards whose CVR lists the contest with sample number <= threshold contribute, "
                "in input order.",
    bounds={"quick": {"cards": 3, "assorters": "plurality, super-majority (share 2/3, 2/5), IRV winner-only, IRV elimination",
                      "audit types": "POLLING, CARD_COMPARISON, ONEAUDIT (one pooled batch)"},
            "thorough": {"cards": 4}},
    outside=["more cards than the bound", "thresholds that were never set (None)", "share_to_win outside the grid"],
    assumptions=["margin computed from the CVRs is positive", "a phantom CVR carries no marks", "IRV ranks present are distinct positive integers"],
    trusted=["symx numpy/builtins model"],
)
CANDS = c03.CANDS


def cells(tier):
    K = 3 if tier == "quick" else 4
    out = []
    for a, sh in (("plurality", None), ("supermajority", "2/3"), ("supermajority", "2/5"), ("irv_wo", None), ("irv_elim", None)):
        for at in ("POLLING", "CARD_COMPARISON", "ONEAUDIT"):
            for style in ((True, False) if at != "POLLING" else (False,)):
                pooled = ["P"] if at == "ONEAUDIT" else []
                out.append(dict(assorter=a, share=sh, audit_type=at, style=style, pooled=pooled, assign=(["P", "P", "Q", "Q"][:K]), K=K))
    return out


def run_cell(cell):
    ex = core.Explorer()
    findings, samples = [], []
    st = {'reach': 0}
    A = aud.sym_audit()
    K, style, at = cell["K"], cell["style"], cell["audit_type"]
    irv = cell["assorter"].startswith("irv")
    enc = "int" if irv else "bool"

    def harness(ex):
        cc = [aud.Card("cvr", i, "K", CANDS, enc, ex, allow_missing_keys=(i == 0)) for i in range(K)]
        mc = [aud.Card("mvr", i, "K", CANDS, enc, ex, allow_missing_keys=(i == 0)) for i in range(K)]
        cph = [z3.Bool(f"cvr{i}_phantom") for i in range(K)]
        mph = [z3.Bool(f"mvr{i}_phantom") for i in range(K)]
        sn = [z3.Int(f"s{i}") for i in range(K)]
        thr = z3.Int("threshold")
        for i in range(K):
            ex.assume(z3.Implies(cph[i], z3.And(*[z3.Not(cc[i].vote(c)) for c in CANDS])))
            ex.assume(sn[i] >= 0)
            if irv:
                for cards in (cc, mc):
                    vals = [cards[i].val[c].e for c in CANDS]
                    for x, y in itertools.combinations(vals, 2):
                        ex.assume(z3.Or(x == 0, y == 0, x != y))
        pooled = cell["pooled"]
        cvrs = [A.CVR(id=i, votes=cc[i].votes, phantom=SB(cph[i]), tally_pool=cell["assign"][i], pool=(cell["assign"][i] in pooled),
                      sample_num=SV(sn[i])) for i in range(K)]
        mvrs = [A.CVR(id=i, votes=mc[i].votes, phantom=SB(mph[i])) for i in range(K)]
        extra = {}

        def inputs(m):
            d = dict(cvrs=[dict(votes=cc[i].concrete(m, CANDS), phantom=bool(model_value(m, cph[i])), sample_num=model_value(m, sn[i])) for i in range(K)],
                     mvrs=[dict(votes=mc[i].concrete(m, CANDS), phantom=bool(model_value(m, mph[i]))) for i in range(K)],
                     threshold=model_value(m, thr))
            return d
        try:
            c2 = dict(cell)
            con, asn, spec, u_a, extra = c03.make_assertion(A, c2, ex, K)
            con.audit_type = at
            con.sample_threshold = SV(thr)
            asn.assorter.assort = merge.merged(asn.assorter.assort)
            audit = A.Audit.from_dict({"strata": {"s": {"max_cards": K, "use_style": style}}})
            if pooled:
                A.CVR.add_pool_contests(cvrs, A.CVR.pool_contests(cvrs))

            class Rec:
                def __init__(self):
                    self.u = "unset"
                    self.calls = []

                def test(self, d):
                    self.calls.append((list(d), self.u))
                    return 1, npmodel.Arr([1] * len(d))
            rec = Rec()
            asn.test = rec
            asn.set_margin_from_cvrs(audit, cvrs)
            v = EV.of(asn.margin)
            ex.assume(_b(And(v.fin(), v.v > 0)))
            if pooled:
                asn.assorter.set_tally_pool_means(cvr_list=cvrs, use_style=style)
            asn.overstatement_assorter = merge.merged(asn.overstatement_assorter)
            con.assertions = {"a": asn}
            d, u_ret = asn.mvrs_to_data(mvrs, cvrs)
            d = list(d)
            rec.u = "unset"
            A.Assertion.set_p_values({"K": con}, mvrs, cvrs)
        except core.PathAbort:
            raise
        except Exception as e:      # noqa
            r, m = ex.witness()
            if r == 'sat':
                findings.append(dict(clause="exception", cell=cell, inputs=inputs(m), observed=repr(e)))
            elif r != 'unsat':
                ex.stats.inconclusive += 1
            return
        st['reach'] += 1
        claims = []
        ue = EV.of(u_ret)
        ub = EV.of(asn.assorter.upper_bound)
        if at == "POLLING":
            claims.append(("u returned = assorter upper bound (polling)", _b(ue._eq(ub))))
        else:
            # u_ret (2 - v/u_a) = 2
            dd = ue.v * (2 - v.v / ub.v) - 2
            tol = R(F(1, 10 ** 9))
            claims.append(("u returned = 2/(2 - v/u_assorter) (comparison)", _b(And(ue.fin(), dd <= tol, -dd <= tol))))
        for i, x in enumerate(d):
            x = EV.of(x)
            claims.append((f"datum {i} is finite and in [0, u]", _b(And(x.fin(), x.v >= 0, x.v <= ue.v))))
        # which cards contribute (comparison with style): exactly those listing the contest with sample number <= threshold
        if at != "POLLING" and style:
            def lists_now(i):      # add_pool_contests may have added the contest to a pooled CVR
                pz = cvrs[i].votes.pres.get("K", False)
                return z3.BoolVal(pz) if isinstance(pz, bool) else pz
            want = [z3.And(lists_now(i), sn[i] <= thr) for i in range(K)]
            cnt = z3.Sum([z3.If(w, 1, 0) for w in want])
            claims.append(("number of data = number of cards listing the contest with sample number <= threshold", cnt == len(d)))
        else:
            claims.append(("every sampled card contributes", len(d) == K))
        claims.append(("set_p_values called the test once", len(rec.calls) == 1))
        if len(rec.calls) == 1:
            d2, u_at = rec.calls[0]
            if len(d2) != len(d):
                claims.append(("the test received the data mvrs_to_data returns", False))
            elif all(z3.simplify(EV.of(p).v).eq(z3.simplify(EV.of(q).v)) for p, q in zip(d2, d)):
                claims.append(("the test received the data mvrs_to_data returns", True))
            else:
                claims.append(("the test received the data mvrs_to_data returns",
                               _b(And(*[Or(And(EV.of(p).nan, EV.of(q).nan), EV.of(p)._eq(EV.of(q))) for p, q in zip(d2, d)]))))
            if isinstance(u_at, str):
                claims.append(("test.u installed before the test ran", False))
            else:
                claims.append(("test.u installed before the test ran equals the returned bound", _b(EV.of(u_at)._eq(ue))))
        for name, cl in claims:
            if isinstance(cl, bool):
                ex.stats.obligations += 1
                if cl:
                    ex.stats.discharged += 1
                else:
                    r, m = ex.witness()
                    if r == 'sat':
                        ex.stats.sat += 1
                        findings.append(dict(clause=name, cell=cell, inputs=inputs(m)))
                continue
            r, m = ex.prove(cl)
            if r == 'sat':
                findings.append(dict(clause=name, cell=cell, inputs=inputs(m)))
        if not samples:
            r, m = ex.witness(timeout_ms=3000)
            if r == 'sat':
                samples.append(dict(cell=f"{cell['assorter']} {at} style={style}", n_data=len(d), reachable_with=inputs(m)))
    ex.run(harness)
    seen, out = set(), []
    for f in findings:
        if f["clause"] in seen and len(out) > 3:
            continue
        seen.add(f["clause"])
        out.append(f)
    return dict(stats=ex.stats.as_dict(), findings=out, samples=samples, vacuous=(st['reach'] == 0 and not findings))


def replay(f):
    import numpy as np
    A = aud.real_audit()
    cell, inp = f["cell"], f["inputs"]
    K, style, at, pooled = cell["K"], cell["style"], cell["audit_type"], cell["pooled"]
    cvrs = [A.CVR(id=i, votes={k: dict(v) for k, v in inp["cvrs"][i]["votes"].items()}, phantom=inp["cvrs"][i]["phantom"],
                  tally_pool=cell["assign"][i], pool=(cell["assign"][i] in pooled), sample_num=int(F(str(inp["cvrs"][i]["sample_num"])))) for i in range(K)]
    mvrs = [A.CVR(id=i, votes={k: dict(v) for k, v in inp["mvrs"][i]["votes"].items()}, phantom=inp["mvrs"][i]["phantom"]) for i in range(K)]
    a = cell["assorter"]
    bad = []
    try:
        if a == "plurality":
            con = A.Contest(id="K", name="K", choice_function="PLURALITY", n_winners=1, candidates=CANDS, winner=["A"], audit_type=at, use_style=style, cards=K)
            asn = list(A.Assertion.make_plurality_assertions(con, winner=["A"], loser=["B"]).values())[0]
        elif a == "supermajority":
            fs = float(F(cell["share"]))
            con = A.Contest(id="K", name="K", choice_function="SUPERMAJORITY", n_winners=1, candidates=CANDS, winner=["A"], share_to_win=fs,
                            audit_type=at, use_style=style, cards=K)
            asn = list(A.Assertion.make_supermajority_assertion(con, share_to_win=fs, winner="A", loser=["B", "C"]).values())[0]
        else:
            con = A.Contest(id="K", name="K", choice_function="IRV", n_winners=1, candidates=CANDS, winner=["A"], audit_type=at, use_style=style, cards=K)
            js = [{"winner": "A", "loser": "B", "assertion_type": "WINNER_ONLY" if a == "irv_wo" else "IRV_ELIMINATION",
                   "already_eliminated": "" if a == "irv_wo" else ["C"]}]
            asn = list(A.Assertion.make_assertions_from_json(con, CANDS, js).values())[0]
        con.sample_threshold = int(F(str(inp["threshold"])))
        audit = A.Audit.from_dict({"strata": {"s": {"max_cards": K, "use_style": style}}})
        if pooled:
            A.CVR.add_pool_contests(cvrs, A.CVR.pool_contests(cvrs))

        class Rec:
            def __init__(self):
                self.u = "unset"
                self.calls = []

            def test(self, d):
                self.calls.append((np.array(d, dtype=float), self.u))
                return 1, np.ones(len(d))
        rec = Rec()
        asn.test = rec
        with np.errstate(all="ignore"):
            asn.set_margin_from_cvrs(audit, cvrs)
            if not asn.margin > 0:
                return dict(reproduced=False, detail=f"margin {asn.margin!r} not positive")
            if pooled:
                asn.assorter.set_tally_pool_means(cvr_list=cvrs, use_style=style)
            con.assertions = {"a": asn}
            d, u = asn.mvrs_to_data(mvrs, cvrs)
            rec.u = "unset"
            A.Assertion.set_p_values({"K": con}, mvrs, cvrs)
        ua, v = asn.assorter.upper_bound, asn.margin
        want_u = ua if at == "POLLING" else 2 / (2 - v / ua)
        if not abs(u - want_u) <= 1e-9 * (1 + abs(want_u)):
            bad.append(f"u returned {u!r}, expected {want_u!r}")
        d = np.asarray(d, dtype=float)
        if np.any(~np.isfinite(d)) or np.any(d < -1e-12) or np.any(d > u * (1 + 1e-9)):
            bad.append(f"data {d.tolist()} outside [0, {u!r}]")
        if at != "POLLING" and style:
            want = [i for i in range(K) if cvrs[i].has_contest("K") and cvrs[i].sample_num <= con.sample_threshold]
            if len(d) != len(want):
                bad.append(f"{len(d)} data but cards {want} list the contest within the threshold")
        elif len(d) != K:
            bad.append(f"{len(d)} data for {K} sampled cards")
        if len(rec.calls) != 1:
            bad.append(f"test called {len(rec.calls)} times")
        else:
            dd, uu = rec.calls[0]
            if isinstance(uu, str) or not abs(uu - u) <= 1e-12 * (1 + abs(u)):
                bad.append(f"test.u at call time {uu!r}, returned bound {u!r}")
            if list(dd) != list(d):
                bad.append("test received different data")
    except Exception as e:      # noqa
        return dict(reproduced=True, detail=f"raised {e!r}")
    return dict(reproduced=bool(bad), detail="; ".join(bad[:3]) or "held")
