"""C13 - shipped estimators and bets keep every martingale factor non-negative."""
import math
from fractions import Fraction as F

import z3

from symx import core, merge, npmodel
from symx.ev import EV, And, Or, Not, _b, R
from . import nnm

PROPERTY = "C13"
EPS = F(2) ** -52
META = dict(
    files=nnm.FILES,
    functions=["NonnegMean.fixed_alternative_mean", "shrink_trunc", "optimal_comparison", "fixed_bet", "agrapa", "sjm", "welford_mean_var"],
    explanation="estim(x) / bet(x) of every shipped rule are executed symbolically from the real source (sample and all tuning "
                "parameters are z3 reals). Per position j the solver decides: 0 <= eta_j <= u (not NaN); 0 <= lam_j <= 1/m_j "
                "wherever 0 < m_j <= u; shrink_trunc: eta_j > m_j wherever m_j < u, with m_j the oracle's own null conditional mean.",
    bounds={"quick": {"n": [1, 2, 3], "N": "n, n+1, n+3, 50, inf", "ut": "plur, super, cmp10 (optimal_comparison: cmp50, cmp10, cmp001)"},
            "thorough": {"n": [1, 2, 3, 4, 5], "N": "n, n+1, n+3, 50, inf and symbolic N >= n", "ut": list(nnm.UT)}},
    outside=["samples longer than the bound", "floating-point rounding (the known sliver finding is the one place where it matters)"],
    assumptions=["eta in (t,u); c,d,minsd > 0; f >= 0; lam in [0,1/u] for fixed_bet, unconstrained for agrapa; "
                 "0 < c_grapa_0 <= c_grapa_max < 1; c_grapa_grow >= 0; rate_error_2 in [0,1]; u > 1 for optimal_comparison"],
    trusted=["float model = exact reals + IEEE special values"],
)

RULES = [m for m in nnm.METHODS if m[1] is not None]
SLIVER_ID = "C13-shrink-trunc-sliver"


def cells(tier):
    out = []
    ns = [1, 2, 3] if tier == "quick" else [1, 2, 3, 4, 5]
    for m in RULES:
        for n in ns:
            Ns = nnm.n_grid(m, n) + (["sym"] if tier == "thorough" and n <= 3 else [])
            for N in Ns:
                for ut in nnm.ut_grid(m, tier):
                    fixed = {}
                    if m[2] == "shrink_trunc":
                        fixed = {"d": 100 if n % 2 else 1}
                        if tier == "quick" and N != "inf":
                            fixed["f"] = 0
                    out.append(dict(method=list(m), n=n, N=N, ut=ut, ro=True, fixed=fixed))
    if tier == "thorough" or True:
        out.append(dict(method=["alpha_mart", "estim", "shrink_trunc"], n=4, N=5, ut="plur", ro=True, fixed={"d": 100, "f": 0}, sliver_witness=True))
    return out


def run_cell(cell):
    ex = core.Explorer()
    findings = []
    samples = []
    state = {'reach': 0}
    kind, rule = cell["method"][1], cell["method"][2]

    def harness(ex):
        inst = nnm.build(ex, cell)
        u = R(inst.u)
        fn = inst.T.estim if kind == "estim" else inst.T.bet
        try:
            vals = merge.merged_call(fn, inst.x)
        except Exception as e:      # noqa
            r, m = ex.witness()
            if r == 'sat':
                findings.append(dict(clause="exception", cell=cell, inputs=nnm.model_inputs(m, inst), observed=repr(e)))
            elif r != 'unsat':
                ex.stats.inconclusive += 1
            return
        state['reach'] += 1
        vs = list(vals) if isinstance(vals, npmodel.Arr) else [vals] * inst.n
        if len(vs) == 1 and inst.n > 1:
            vs = vs * inst.n
        ms = nnm.null_means(inst)
        claims = []
        if len(vs) != inst.n:
            claims.append(("length", 0, False))
        for j, (v, m) in enumerate(zip(vs, ms)):
            v = EV.of(v)
            if kind == "estim":
                claims.append((f"0<=eta_j<=u", j, And(v.fin(), v.v >= 0, v.v <= u)))
                if rule == "shrink_trunc":
                    # known finding: in the sliver u(1-2eps) <= m_j < u the truncation at float(u*(1-eps)) falls to or below m_j
                    # (2 eps: float(u*(1-eps)) can lie one rounding below the exact product)
                    claims.append((f"shrink_trunc eta_j>m_j where m_j<u(1-2eps)", j,
                                   z3.Implies(m < u * R(1 - 2 * EPS), _b(And(v.fin(), v.v > m)))))
            else:
                claims.append((f"0<=lam_j<=1/m_j where 0<m_j<=u", j,
                               z3.Implies(z3.And(m > 0, m <= u), _b(And(v.fin(), v.v >= 0, v.v * m <= 1)))))
        for name, j, c in claims:
            r, mdl = ex.prove(_b(c))
            if r == 'sat':
                findings.append(dict(clause=name, j=j + 1, cell=cell, inputs=nnm.model_inputs(mdl, inst)))
        if rule == "shrink_trunc" and cell.get("sliver_witness"):
            # reachability of the known-finding region, symbolically; the canonical double-precision witness is replayed
            j = inst.n - 1
            v = EV.of(vs[j])
            r, mdl = ex.witness(z3.And(ms[j] >= u * R(1 - 2 * EPS), ms[j] < u, v.v <= ms[j]))
            if r == 'sat':
                findings.append(dict(clause="shrink_trunc eta_j<=m_j in the sliver u(1-2eps)<=m_j<u", j=j + 1, cell=cell, known=SLIVER_ID,
                                     inputs={"x": ["1/4", str(F(1, 4) + EPS), "0", "0"], "eta": "3/4", "c": "1/2", "minsd": "1/1000000"},
                                     solver_model=nnm.model_inputs(mdl, inst)))
        if not samples:
            r, mdl = ex.witness(timeout_ms=5000)
            if r == 'sat':
                samples.append(dict(cell=nnm.method_id(cell["method"]) + f" n={inst.n} N={cell['N']} {cell['ut']}",
                                    reachable_with=nnm.model_inputs(mdl, inst)))
    ex.run(harness)
    return dict(stats=ex.stats.as_dict(), findings=findings, samples=samples, vacuous=(state['reach'] == 0 and not findings))


def replay(f):
    import numpy as np
    cell = f["cell"]
    inp = f["inputs"]
    T, _ = nnm.real_instance(cell, inp)
    u, t = (float(v) for v in nnm.UT[cell["ut"]])
    x = np.array([nnm.fl(v) for v in inp["x"]])
    kind, rule = cell["method"][1], cell["method"][2]
    N = T.N
    try:
        with np.errstate(all="ignore"):
            vals = T.estim(x) if kind == "estim" else T.bet(x)
    except Exception as e:      # noqa
        return dict(reproduced=True, detail=f"{rule} raised {e!r} on x={x.tolist()}")
    vals = np.broadcast_to(np.asarray(vals, dtype=float), x.shape)
    # exact null means from the float inputs
    S = F(0)
    bad = []
    for j in range(len(x)):
        m = (F(N) * F(t) - S) / (F(N) - j) if math.isfinite(N) else F(t)
        S += F(float(x[j]))
        v = float(vals[j])
        if kind == "estim":
            if math.isnan(v) or v < 0 or v > u:
                bad.append(f"eta_{j + 1}={v!r} outside [0,{u}]")
            if rule == "shrink_trunc" and m < F(u) and not (F(v) > m):
                bad.append(f"eta_{j + 1}={v!r} <= m_{j + 1}={float(m)!r} < u")
        else:
            if 0 < m <= F(u):
                if math.isnan(v) or v < 0 or F(v) * m > 1 + F(1, 10 ** 12):
                    bad.append(f"lam_{j + 1}={v!r} outside [0, 1/m_j={float(1 / m)!r}]")
    return dict(reproduced=bool(bad), detail="; ".join(bad) or f"held: values={vals.tolist()}")
