"""C05 - non-anticipation: the p-value after j draws depends only on those j draws."""
import math
from fractions import Fraction as F

import z3

from symx import core, merge, npmodel
from symx.core import SV, model_value
from symx.ev import EV, And, Or, Not, _b, R
from . import nnm

PROPERTY = "C05"
META = dict(
    files=nnm.FILES,
    functions=["NonnegMean.alpha_mart", "betting_mart", "kaplan_kolmogorov", "kaplan_markov", "kaplan_wald", "wald_sprt", "sjm",
               "fixed_alternative_mean", "shrink_trunc", "optimal_comparison", "fixed_bet", "agrapa", "welford_mean_var"],
    explanation="Three symbolic runs of the real code per path: on x (length n), on x[:k]+y (y fresh symbolic values) and on x[:k]. "
                "Obligations: history entries 1..k agree between the first two; truncation leaves entries 1..k-1 unchanged and can only "
                "lower entry k; estim/bet values 1..k+1 agree. Decided by term identity after simplification where the terms coincide, "
                "by the solver otherwise. NaN entries compare as 'both NaN'.",
    bounds={"quick": {"n": [3], "k": [1, 2], "N": "n, n+3, inf", "ut": "plur, cmp10", "also": "integer-typed 0/1 prefix with a real tail"},
            "thorough": {"n": [3, 4], "k": "1..n-1", "N": "n, n+1, n+3, 50, inf", "ut": list(nnm.UT)}},
    outside=["samples longer than the bound", "floating-point rounding"],
    assumptions=["same parameter ranges as C11"],
    trusted=["float model = exact reals + IEEE special values; integer-typed arrays are modelled by int-sorted symbolic entries"],
)


def cells(tier):
    out = []
    ns = [3] if tier == "quick" else [3, 4]
    for m in nnm.METHODS:
        for n in ns:
            Ns = [n, n + 3, "inf"] if tier == "quick" else nnm.n_grid(m, n)
            Ns = [N for N in Ns if N in nnm.n_grid(m, n)]
            for N in Ns:
                for ut in (["plur", "cmp10"] if tier == "quick" else nnm.ut_grid(m, tier)):
                    if m[2] == "optimal_comparison" and ut == "plur":
                        continue
                    for k in range(1, n):
                        fixed = {}
                        if m[2] == "shrink_trunc":
                            fixed = {"d": 100 if k % 2 else 1}
                        out.append(dict(method=list(m), n=n, N=N, ut=ut, ro=True, k=k, fixed=fixed, xk="real"))
    if tier == "quick":
        # rules that use the running variance: one longer cell so that the third bet/alternative is compared across sample lengths
        for m in nnm.METHODS:
            if m[2] in ("agrapa", "shrink_trunc"):
                for N in (6, "inf"):
                    out.append(dict(method=list(m), n=4, N=N, ut="plur", ro=True, k=3, fixed=({"d": 1} if m[2] == "shrink_trunc" else {}), xk="real"))
    # integer-typed prefix (0/1 tallies given as python ints), real-valued replacement tail
    for m in nnm.METHODS:
        if m[0] in ("kaplan_kolmogorov",):
            continue
        N = "inf" if "inf" in nnm.n_grid(m, 3) else 6
        ut = "cmp10" if m[2] == "optimal_comparison" else "plur"
        fixed = {"d": 100} if m[2] == "shrink_trunc" else {}
        out.append(dict(method=list(m), n=3, N=N, ut=ut, ro=True, k=2, fixed=fixed, xk="int01"))
    # optional arguments omitted (the code's own defaults, e.g. the initial alternative of shrink_trunc) must be predictable too
    # (fixed_bet passed explicitly has no default for lam: AttributeError, outside the property)
    for m in nnm.METHODS:
        opt = {"shrink_trunc": ["eta", "c", "d", "f", "minsd"], "agrapa": ["lam", "c_grapa_0", "c_grapa_max", "c_grapa_grow"],
               "fixed_alternative_mean": ["eta"], "optimal_comparison": ["rate_error_2"]}.get(m[2])
        if not opt or m[0] == "wald_sprt":
            continue
        for N in ("inf", 6):
            if N not in nnm.n_grid(m, 3) and N != 6:
                continue
            ut = "cmp10" if m[2] == "optimal_comparison" else "plur"
            out.append(dict(method=list(m), n=3, N=N, ut=ut, ro=True, k=2, fixed={}, xk="real", omit=opt))
            if m[2] == "shrink_trunc":
                out.append(dict(method=list(m), n=3, N=N, ut=ut, ro=True, k=2, fixed={"d": 1}, xk="real", omit=["eta"]))
    return out


def _same(a, b):
    """None if syntactically identical (after simplification), else the z3 claim 'a and b are the same float'"""
    a, b = EV.of(a), EV.of(b)
    fa = [a.v, z3.BoolVal(a.inf) if isinstance(a.inf, bool) else a.inf, z3.BoolVal(a.nan) if isinstance(a.nan, bool) else a.nan]
    fb = [b.v, z3.BoolVal(b.inf) if isinstance(b.inf, bool) else b.inf, z3.BoolVal(b.nan) if isinstance(b.nan, bool) else b.nan]
    if all(z3.simplify(p).eq(z3.simplify(q)) for p, q in zip(fa, fb)):
        return None
    return _b(Or(And(a.nan, b.nan), a._eq(b)))


def _explore(cell, mode, stats):
    ex = core.Explorer(stats=stats)
    findings = []
    samples = []
    state = {'reach': 0, 'identity': 0, 'open': 0}
    kind, rule = cell["method"][1], cell["method"][2]
    n, k = cell["n"], cell["k"]

    def harness(ex):
        inst = nnm.build(ex, cell, x_kind=cell["xk"])
        u = R(inst.u)
        ys = [z3.Real(f"y{i + 1}") for i in range(k, n)]
        for y in ys:
            ex.assume(z3.And(y >= 0, y <= u))
        xa = inst.x
        xb = npmodel.Arr(list(inst.x.a[:k]) + [EV(y) for y in ys])
        xc = npmodel.Arr(list(inst.x.a[:k]))
        runs = {}
        table = {}
        try:
            for name, arr in (("x", xa), ("x[:k]+y", xb), ("x[:k]", xc)):
                if mode == "abstract":
                    with nnm.SharedCut(table):
                        runs[name] = merge.merged_call(inst.T.test, arr)
                else:
                    runs[name] = merge.merged_call(inst.T.test, arr)
            aux = {}
            if kind is not None:
                fn = inst.T.estim if kind == "estim" else inst.T.bet
                for name, arr in (("x", xa), ("x[:k]+y", xb), ("x[:k]", xc)):
                    v = merge.merged_call(fn, arr)
                    aux[name] = list(v) if isinstance(v, npmodel.Arr) else [v] * len(arr)
        except Exception as e:      # noqa
            r, m = ex.witness()
            if r == 'sat':
                findings.append(dict(clause="exception", cell=cell, inputs=_inputs(m, inst, ys), observed=repr(e)))
            elif r != 'unsat':
                ex.stats.inconclusive += 1
            return
        state['reach'] += 1
        ha, hb, hc = (list(runs[q][1]) for q in ("x", "x[:k]+y", "x[:k]"))
        claims = []
        for j in range(k):
            claims.append((f"history[{j + 1}] agrees for samples sharing the first {k} observations", _same(ha[j], hb[j])))
        for j in range(k - 1):
            claims.append((f"truncation to {k} leaves history[{j + 1}] unchanged", _same(hc[j], ha[j])))
        a, c = EV.of(ha[k - 1]), EV.of(hc[k - 1])
        # (the k-th entry of the full run is assumed well formed - that is C11's obligation, not this property's)
        from symx.ev import in_unit
        claims.append((f"truncation to {k} can only lower history[{k}]",
                       None if _same(hc[k - 1], ha[k - 1]) is None else
                       z3.Implies(_b(in_unit(a)), _b(Or(And(a.nan, c.nan), (c <= a).e)))))
        if aux:
            for j in range(min(k + 1, n)):
                claims.append((f"{rule}[{j + 1}] unaffected by observations {k + 1}..", _same(aux["x"][j], aux["x[:k]+y"][j])))
            for j in range(k):
                claims.append((f"{rule}[{j + 1}] unaffected by truncating the sample to {k}", _same(aux["x"][j], aux["x[:k]"][j])))
        for name, cl in claims:
            if cl is None:
                state['identity'] += 1
                ex.stats.obligations += 1
                ex.stats.discharged += 1
                continue
            if mode == "abstract":
                before = (ex.stats.inconclusive, ex.stats.sat, ex.stats.obligations)
                r, mdl = ex.prove(cl, timeout_ms=8000)
                if r != 'unsat':
                    state['open'] += 1
                    ex.stats.inconclusive, ex.stats.sat, ex.stats.obligations = before
            else:
                r, mdl = ex.prove(cl)
                if r == 'sat':
                    findings.append(dict(clause=name, cell=cell, inputs=_inputs(mdl, inst, ys)))
        if not samples:
            r, mdl = ex.witness(timeout_ms=5000)
            if r == 'sat':
                samples.append(dict(cell=nnm.method_id(cell["method"]) + f" n={n} k={k} N={cell['N']} {cell['ut']} x:{cell['xk']}",
                                    stage=mode, reachable_with=_inputs(mdl, inst, ys), decided_by_term_identity=state['identity']))
    ex.run(harness)
    return findings, samples, state


def run_cell(cell):
    stats = core.Stats()
    findings, samples, st = _explore(cell, "abstract", stats)
    notes = []
    if st['open'] or findings:
        findings, s2, st2 = _explore(cell, "exact", stats)
        samples = samples or s2
        st['reach'] += st2['reach']
        notes.append(f"exact stage used for {nnm.method_id(cell['method'])} n={cell['n']} k={cell['k']} N={cell['N']} {cell['ut']}")
    return dict(stats=stats.as_dict(), findings=findings, samples=samples, notes=notes, vacuous=(st['reach'] == 0 and not findings))


def _inputs(m, inst, ys):
    d = nnm.model_inputs(m, inst)
    d["y"] = [model_value(m, y) for y in ys]
    return d


def replay(f):
    import numpy as np
    cell = f["cell"]
    inp = f["inputs"]
    n, k = cell["n"], cell["k"]
    T, _ = nnm.real_instance(cell, inp)
    if cell["xk"] == "int01":
        pre = [int(F(v)) for v in inp["x"][:k]]
        xa = np.array([int(F(v)) for v in inp["x"]])
        xb = np.array(pre + [nnm.fl(v) for v in inp["y"]])     # a float anywhere makes the whole array float
        xc = np.array(pre)
    else:
        xa = np.array([nnm.fl(v) for v in inp["x"]])
        xb = np.array([nnm.fl(v) for v in inp["x"][:k]] + [nnm.fl(v) for v in inp["y"]])
        xc = xa[:k].copy()
    bad = []

    def same(p, q):
        p, q = float(p), float(q)
        if math.isnan(p) or math.isnan(q):
            return math.isnan(p) and math.isnan(q)
        return p == q or abs(p - q) <= 1e-9 * max(abs(p), abs(q), 1e-300)
    try:
        with np.errstate(all="ignore"):
            ha, hb, hc = (np.asarray(T.test(a)[1], dtype=float) for a in (xa, xb, xc))
            for j in range(k):
                if not same(ha[j], hb[j]):
                    bad.append(f"history[{j + 1}] {ha[j]!r} vs {hb[j]!r} although the first {k} observations agree")
            for j in range(k - 1):
                if not same(hc[j], ha[j]):
                    bad.append(f"truncated history[{j + 1}] {hc[j]!r} vs {ha[j]!r}")
            if not (same(hc[k - 1], ha[k - 1]) or hc[k - 1] <= ha[k - 1]):
                bad.append(f"truncation raised history[{k}]: {hc[k - 1]!r} > {ha[k - 1]!r}")
            kind = cell["method"][1]
            if kind is not None:
                fn = T.estim if kind == "estim" else T.bet
                va = np.broadcast_to(np.asarray(fn(xa), dtype=float), (n,))
                vb = np.broadcast_to(np.asarray(fn(xb), dtype=float), (n,))
                for j in range(min(k + 1, n)):
                    if not same(va[j], vb[j]):
                        bad.append(f"{cell['method'][2]}[{j + 1}] {va[j]!r} vs {vb[j]!r} after changing observations {k + 1}..")
                vc = np.broadcast_to(np.asarray(fn(xc), dtype=float), (k,))
                for j in range(k):
                    if not same(va[j], vc[j]):
                        bad.append(f"{cell['method'][2]}[{j + 1}] {va[j]!r} vs {vc[j]!r} after truncating the sample to {k}")
    except Exception as e:      # noqa
        return dict(reproduced=True, detail=f"raised {e!r}")
    return dict(reproduced=bool(bad), detail="; ".join(bad) or "held")
