"""C17 - each sample number maps to exactly one card; manifests account for every card."""
import itertools
from fractions import Fraction as F

import z3

from symx import core, npmodel, loader
from symx.core import SB, SV, model_value
from . import aud

PROPERTY = "C17"
META = dict(
    files=["shangrla/formats/Dominion.py", "shangrla/formats/Hart.py"],
    functions=["Dominion.prep_manifest", "Dominion.sample_from_manifest", "Dominion.sample_from_cvrs", "Hart.prep_manifest",
               "Hart.sample_from_manifest", "Hart.sample_from_cvrs"],
    explanation="Manifests are real pandas DataFrames whose batch sizes are symbolic integers >= 0 (object columns); numpy inside the format "
                "modules is the symx model. prep_manifest: sizes, card bound and CVR count symbolic - refusal iff manifest > bound or < #CVRs, "
                "otherwise a phantom batch makes the total exactly the bound. sample_from_manifest: two symbolic valid sample numbers - the "
                "position lies within the batch's size, cum(previous batches) + position = sample number (hence one-to-one), selection "
                "order recorded, phantom manual record exactly for the phantom batch; default and non-default row indices. "
                "sample_from_cvrs: CVRs returned in selection order with matching identifiers (symbolic phantom flags).",
    bounds={"quick": {"batches": "2-3 (+ phantom batch)", "sample numbers": 2}, "thorough": {"batches": "2-4 (+ phantom batch)", "sample numbers": 2}},
    outside=["reading Excel/CSV", "pandas dtype conversion of real files", "more batches than the bound"],
    assumptions=["batch sizes >= 0", "sample numbers valid: 1..total (Dominion), 0..total-1 (Hart)"],
    trusted=["pandas (real library, object columns)", "symx numpy model"],
)

_mods = {}


def mods():
    if not _mods:
        import pandas as pd
        L = loader.Loader(extra_modules=dict(aud.crypto_stub(), pandas=pd))
        _mods["Dominion"] = L.load("shangrla.formats.Dominion").Dominion
        _mods["Hart"] = L.load("shangrla.formats.Hart").Hart
        _mods["A"] = L.load("shangrla.core.Audit")
        _mods["pd"] = pd
    return _mods


def cells(tier):
    out = []
    for vendor in ("Dominion", "Hart"):
        for k in ((2, 3) if tier == "quick" else (2, 3, 4)):
            for index in ("default", "shifted"):
                out.append(dict(kind="lookup", vendor=vendor, k=k, index=index))
            out.append(dict(kind="prep", vendor=vendor, k=k))
        out.append(dict(kind="cvrs", vendor=vendor))
    return out


def _earlier_lookup(pd, V, vendor):
    """an earlier round in the same process that sampled a phantom card (a lookup must not depend on earlier lookups)"""
    df0 = frame(pd, vendor, [1, 1])
    df0[df0.columns[3]] = df0[df0.columns[3]].astype(int)
    df0["cum_cards"] = df0[df0.columns[3]].cumsum()
    V.sample_from_manifest(df0, [2] if vendor == "Dominion" else [1])


def frame(pd, vendor, sizes, index="default", phantom_last=True):
    k = len(sizes)
    tabs = [f"T{i}" for i in range(k)]
    if phantom_last:
        tabs[-1] = "phantom"
    idx = list(range(k)) if index == "default" else [10 + 2 * i for i in range(k)][::-1]
    if vendor == "Dominion":
        df = pd.DataFrame({"Tray #": [str(i) for i in range(k)], "Tabulator Number": tabs, "Batch Number": [f"B{i}" for i in range(k)],
                           "Total Ballots": pd.Series(sizes, dtype=object), "VBMCart.Cart number": ["c"] * k})
    else:
        df = pd.DataFrame({"Container": [str(i) for i in range(k)], "Tabulator": tabs, "Batch Name": [f"B{i}" for i in range(k)],
                           "Number of Ballots": pd.Series(sizes, dtype=object)})
    df.index = idx
    return df


class _Indexer:
    def __init__(self, real):
        self.real = real

    def __getitem__(self, key):
        if isinstance(key, SV):
            key = core.concretize_int(key)      # forks over the feasible row numbers; pandas then applies its own iloc/loc semantics
        return self.real[key]


class FrameProxy:
    """real pandas DataFrame whose .iloc / .loc accept symbolic integers (concretised by forking); everything else is delegated"""

    def __init__(self, df):
        object.__setattr__(self, "_df", df)

    @property
    def iloc(self):
        return _Indexer(self._df.iloc)

    @property
    def loc(self):
        return _Indexer(self._df.loc)

    def __getitem__(self, k):
        return self._df[k]

    def __setitem__(self, k, v):
        self._df[k] = v

    def __getattr__(self, k):
        return getattr(self._df, k)

    def __len__(self):
        return len(self._df)


def _z(v):
    if isinstance(v, SV):
        return v.e
    if isinstance(v, SB):
        return z3.If(v.e, 1, 0)
    return z3.IntVal(int(v))


def _lookup(cell, stats):
    ex = core.Explorer(stats=stats)
    findings, samples = [], []
    st = {'reach': 0}
    M = mods()
    V, pd = M[cell["vendor"]], M["pd"]
    k = cell["k"] + 1      # + phantom batch

    def harness(ex):
        sz = [z3.Int(f"size{i}") for i in range(k)]
        for s in sz:
            ex.assume(s >= 0)
        total = z3.Sum(sz)
        s1, s2 = z3.Int("s1"), z3.Int("s2")
        lo, hi = (1, total) if cell["vendor"] == "Dominion" else (0, total - 1)
        for s in (s1, s2):
            ex.assume(z3.And(s >= lo, s <= hi))
        df = frame(pd, cell["vendor"], [SV(s) for s in sz], cell["index"])
        cum = []
        acc = z3.IntVal(0)
        for s in sz:
            acc = acc + s
            cum.append(acc)
        df["cum_cards"] = pd.Series([SV(c) for c in cum], dtype=object, index=df.index)
        inputs = lambda m: dict(sizes=[model_value(m, s) for s in sz], sample=[model_value(m, s1), model_value(m, s2)])
        try:
            _earlier_lookup(pd, V, cell["vendor"])
            cards, order, mvr_ph = V.sample_from_manifest(FrameProxy(df), [SV(s1), SV(s2)])
        except core.PathAbort:
            raise
        except Exception as e:      # noqa
            r, m = ex.witness()
            if r == 'sat':
                findings.append(dict(clause="exception", cell=cell, inputs=inputs(m), observed=repr(e)))
            elif r != 'unsat':
                ex.stats.inconclusive += 1
            return
        st['reach'] += 1
        claims = []
        # cards are sorted by the code; recover per sample number via the recorded sample number / identifiers
        pos_tab = 2 if cell["vendor"] == "Dominion" else 1
        per = {}
        for cd in cards:
            tab, batch, pos = cd[pos_tab], cd[pos_tab + 1], cd[pos_tab + 2]
            per.setdefault(str(cd[pos_tab + 3]), []).append((tab, batch, pos))
        claims.append(("one card per sample number", len(cards) == 2))
        for which, s in (("first", s1), ("second", s2)):
            # find this sample's card: the one whose cumulative position equals s
            alts = []
            for cd in cards:
                tab, batch, pos = cd[pos_tab], cd[pos_tab + 1], cd[pos_tab + 2]
                b = int(str(batch)[1:])
                before = cum[b - 1] if b > 0 else z3.IntVal(0)
                inside = z3.And(_z(pos) >= 1, _z(pos) <= sz[b]) if cell["vendor"] == "Dominion" else z3.And(_z(pos) >= 0, _z(pos) < sz[b])
                right_tab = (tab == ("phantom" if b == k - 1 else f"T{b}"))
                alts.append(z3.And(inside, before + _z(pos) == s, z3.BoolVal(bool(right_tab))))
            claims.append((f"{which} sample number maps to a (batch, position) with the position inside the batch and cum(batch-1)+position = s",
                           z3.Or(*alts)))
        # phantom manual records exactly for cards of the phantom batch
        nph = sum(1 for cd in cards if cd[pos_tab] == "phantom")
        claims.append(("phantom manual record exactly for cards in the phantom batch",
                       len(mvr_ph) == nph and all(m.phantom is True and m.votes == {} for m in mvr_ph)))
        claims.append(("selection order recorded for every card", sorted(v["selection_order"] for v in order.values()) == list(range(len(order)))
                       and (len(order) == 2 or len(order) == 1)))
        if len(order) == 2:      # the k-th sample number's card carries selection order k (serial = sample number + 1 identifies it)
            for v in order.values():
                if v["selection_order"] in (0, 1):
                    claims.append((f"the card recorded with selection order {v['selection_order']} is the one drawn at that position",
                                   _z(v["serial"]) == (s1, s2)[v["selection_order"]] + 1))
        if len(order) == 1:
            claims.append(("two sample numbers share one card only if they are equal", s1 == s2))
        for name, cl in claims:
            if isinstance(cl, bool):
                ex.stats.obligations += 1
                if cl:
                    ex.stats.discharged += 1
                else:
                    r, m = ex.witness()
                    if r == 'sat':
                        ex.stats.sat += 1
                        findings.append(dict(clause=name, cell=cell, inputs=inputs(m)))
                continue
            r, m = ex.prove(cl)
            if r == 'sat':
                findings.append(dict(clause=name, cell=cell, inputs=inputs(m)))
        if not samples:
            r, m = ex.witness(timeout_ms=2000)
            if r == 'sat':
                samples.append(dict(cell=f"lookup {cell['vendor']} {k} batches index={cell['index']}", reachable_with=inputs(m)))
    ex.run(harness)
    return findings, samples, st


def _prep(cell, stats):
    ex = core.Explorer(stats=stats)
    findings, samples = [], []
    st = {'reach': 0}
    M = mods()
    V, pd = M[cell["vendor"]], M["pd"]
    k = cell["k"]

    def harness(ex):
        sz = [z3.Int(f"size{i}") for i in range(k)]
        for s in sz:
            ex.assume(z3.And(s >= 0, s <= 50))
        mx, nc = z3.Int("max_cards"), z3.Int("n_cvrs")
        ex.assume(z3.And(mx >= 0, mx <= 200, nc >= 0, nc <= 200))
        total = z3.Sum(sz)
        df = frame(pd, cell["vendor"], [SV(s) for s in sz], phantom_last=False)
        inputs = lambda m: dict(sizes=[model_value(m, s) for s in sz], max_cards=model_value(m, mx), n_cvrs=model_value(m, nc))
        refused = False
        try:
            import warnings
            with warnings.catch_warnings():
                warnings.simplefilter("ignore")
                out, mcards, phantoms = V.prep_manifest(df, SV(mx), SV(nc))
        except AssertionError:
            refused = True
        except core.PathAbort:
            raise
        except Exception as e:      # noqa
            r, m = ex.witness()
            if r == 'sat':
                findings.append(dict(clause="exception", cell=cell, inputs=inputs(m), observed=repr(e)))
            elif r != 'unsat':
                ex.stats.inconclusive += 1
            return
        st['reach'] += 1
        claims = []
        should_refuse = z3.Or(total > mx, total < nc)
        claims.append(("refuses exactly manifests larger than the bound or smaller than the number of CVRs", should_refuse if refused else z3.Not(should_refuse)))
        if not refused:
            claims.append(("manifest_cards = number of cards listed", _z(mcards) == total))
            claims.append(("phantoms = bound - cards listed", _z(phantoms) == mx - total))
            col = "Total Ballots" if cell["vendor"] == "Dominion" else "Number of Ballots"
            last_cum = list(out["cum_cards"])[-1]
            claims.append(("the prepared manifest accounts for exactly the upper bound on cards", _z(last_cum) == mx))
            rows = len(out)
            claims.append(("a phantom batch is appended exactly when the manifest is short", (total < mx) if rows == k + 1 else z3.And(total == mx, z3.BoolVal(rows == k))))
            tabcol = "Tabulator Number" if cell["vendor"] == "Dominion" else "Tabulator"
            if rows == k + 1:
                claims.append(("the appended batch is labelled phantom", str(list(out[tabcol])[-1]) == "phantom"))
        for name, cl in claims:
            if isinstance(cl, bool):
                ex.stats.obligations += 1
                if cl:
                    ex.stats.discharged += 1
                else:
                    r, m = ex.witness()
                    if r == 'sat':
                        ex.stats.sat += 1
                        findings.append(dict(clause=name, cell=cell, inputs=inputs(m)))
                continue
            r, m = ex.prove(cl)
            if r == 'sat':
                findings.append(dict(clause=name, cell=cell, inputs=inputs(m)))
        if not samples:
            r, m = ex.witness(timeout_ms=2000)
            if r == 'sat':
                samples.append(dict(cell=f"prep {cell['vendor']} {k} batches", refused=refused, reachable_with=inputs(m)))
    ex.run(harness)
    return findings, samples, st


def _cvrs(cell, stats):
    from . import c08
    return c08._formats(dict(kind="formats", only=cell["vendor"]), stats)


def run_cell(cell):
    stats = core.Stats()
    fn = dict(lookup=_lookup, prep=_prep, cvrs=_cvrs)[cell["kind"]]
    findings, samples, st = fn(cell, stats)
    for f in findings:
        f["cell"] = cell
    return dict(stats=stats.as_dict(), findings=findings, samples=samples, vacuous=(st['reach'] == 0 and not findings))


def replay(f):
    import warnings
    import pandas as pd
    cell, inp = f["cell"], f["inputs"]
    Dom = loader.real_module("shangrla.formats.Dominion").Dominion
    Hart = loader.real_module("shangrla.formats.Hart").Hart
    V = Dom if cell["vendor"] == "Dominion" else Hart
    if cell["kind"] == "cvrs":
        return dict(reproduced=True, detail="structural mismatch on a concrete path (see inputs)")
    sizes = [int(x) for x in inp["sizes"]]
    bad = []
    if cell["kind"] == "prep":
        mx, nc = int(inp["max_cards"]), int(inp["n_cvrs"])
        df = frame(pd, cell["vendor"], sizes, phantom_last=False)
        df[df.columns[3]] = df[df.columns[3]].astype(int)
        should_refuse = sum(sizes) > mx or sum(sizes) < nc
        try:
            with warnings.catch_warnings():
                warnings.simplefilter("ignore")
                out, mcards, phantoms = V.prep_manifest(df, mx, nc)
            if should_refuse:
                bad.append("accepted a manifest that should be refused")
            else:
                if int(mcards) != sum(sizes) or int(phantoms) != mx - sum(sizes):
                    bad.append(f"manifest_cards={mcards}, phantoms={phantoms}; listed {sum(sizes)}, bound {mx}")
                if int(list(out["cum_cards"])[-1]) != mx:
                    bad.append(f"prepared manifest accounts for {list(out['cum_cards'])[-1]} cards, bound {mx}")
                if (len(out) == len(sizes) + 1) != (sum(sizes) < mx):
                    bad.append(f"{len(out)} rows for {len(sizes)} batches, listed {sum(sizes)}, bound {mx}")
        except AssertionError:
            if not should_refuse:
                bad.append("refused a valid manifest")
        except Exception as e:      # noqa
            bad.append(f"raised {e!r}")
        return dict(reproduced=bool(bad), detail="; ".join(bad) or "held")
    sample = [int(x) for x in inp["sample"]]
    df = frame(pd, cell["vendor"], sizes, cell["index"])
    df[df.columns[3]] = df[df.columns[3]].astype(int)
    df["cum_cards"] = df[df.columns[3]].cumsum()
    k = len(sizes)
    try:
        _earlier_lookup(pd, V, cell["vendor"])
        cards, order, mph = V.sample_from_manifest(df, sample)
    except Exception as e:      # noqa
        return dict(reproduced=True, detail=f"raised {e!r}")
    pos_tab = 2 if cell["vendor"] == "Dominion" else 1
    cum = [sum(sizes[:i + 1]) for i in range(k)]
    want = []
    for s in sample:
        t = s if cell["vendor"] == "Dominion" else s + 1          # 1-based position in the whole manifest
        b = next(i for i in range(k) if cum[i] >= t)
        p = t - (cum[b - 1] if b else 0)
        want.append((("phantom" if b == k - 1 else f"T{b}"), f"B{b}", p if cell["vendor"] == "Dominion" else p - 1))
    got = sorted((str(c[pos_tab]), str(c[pos_tab + 1]), int(c[pos_tab + 2])) for c in cards)
    if got != sorted(want):
        bad.append(f"cards {got}, expected {sorted(want)}")
    if len(mph) != sum(1 for w in want if w[0] == "phantom"):
        bad.append(f"{len(mph)} phantom manual records for {sum(1 for w in want if w[0] == 'phantom')} phantom cards")
    ids = [f"{w[0]}-{w[1]}-{w[2]}" for w in want]
    for i, cid in enumerate(ids):
        if cid not in order or (ids.count(cid) == 1 and order[cid]["selection_order"] != i):
            bad.append(f"selection order of {cid}: {order.get(cid)}")
    return dict(reproduced=bool(bad), detail="; ".join(bad[:3]) or "held")
