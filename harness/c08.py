"""C08 - phantom records account for every possible card and are scored worst-case."""
import itertools
from fractions import Fraction as F

import z3

from symx import core, npmodel, merge
from symx.core import SB, SV, model_value
from symx.ev import EV, And, Or, Not, _b, R
from . import aud, c03

PROPERTY = "C08"
META = dict(
    files=["shangrla/core/Audit.py", "shangrla/formats/Dominion.py", "shangrla/formats/Hart.py"],
    functions=["CVR.make_phantoms", "Assorter.overstatement", "Assertion.overstatement_assorter", "Assorter.set_tally_pool_means",
               "Dominion.sample_from_cvrs", "Hart.sample_from_cvrs"],
    explanation="(1) make_phantoms on K real CVRs with symbolic contest membership, two contests whose card bounds are symbolic (listing + 0..3, "
                "or unspecified) and a symbolic stratum bound: per path the returned list is checked against the counts (per contest with "
                "style, in total without), originals first and identical, unique phantom ids, number created = largest shortfall. "
                "(2) for symbolic (mvr, cvr) pairs and every assorter, style on/off, pooled or not: replacing the manual record by a phantom "
                "(both the `votes={}` record the format modules build and one listing the contest) never lowers the overstatement, hence never "
                "raises the overstatement assorter; (3) a phantom CVR is scored exactly like a record with no mark in the contest, also inside "
                "a pooled batch mean. (4) sample_from_cvrs of both vendors returns a phantom manual record exactly for phantom CVRs.",
    bounds={"quick": {"real CVRs": 2, "contests": 2, "extra cards per contest": "0..3", "pairs": "1 symbolic (mvr, cvr) pair + 1 batch mate"},
            "thorough": {"real CVRs": 3, "contests": 2, "extra cards per contest": "0..3"}},
    outside=["more CVRs/contests than the bound", "stratified audits"],
    assumptions=["contest card bounds >= number of CVRs listing the contest; stratum bound >= number of CVRs", "phantom CVRs carry no marks",
                 "margins from a grid {1/10, 1/2} for the assorter-level monotonicity clause"],
    trusted=["symx numpy/builtins model"],
)
CANDS = c03.CANDS


def cells(tier):
    K = 2 if tier == "quick" else 3
    out = []
    for style in (True, False):
        for none_bound in (False, True):
            for order in (("k0", "k1"), ("k1", "k0")):
                out.append(dict(kind="make", K=K, style=style, none_bound=none_bound, order=list(order)))
    for a, sh in (("plurality", None), ("supermajority", "2/3"), ("irv_wo", None), ("irv_elim", None)):
        for style in (True, False):
            for pooled in (False, True):
                out.append(dict(kind="score", assorter=a, share=sh, style=style, pooled=(["P"] if pooled else []), assign=["P", "P"], K=2))
    out.append(dict(kind="formats"))
    return out


def _make(cell, stats):
    ex = core.Explorer(stats=stats)
    findings, samples = [], []
    st = {'reach': 0}
    A = aud.sym_audit()
    K, style = cell["K"], cell["style"]
    CONS = cell["order"]

    def harness(ex):
        has = [[z3.Bool(f"has{i}_{c}") for c in ("k0", "k1")] for i in range(K)]
        extra = {c: z3.Int(f"extra_{c}") for c in ("k0", "k1")}
        for c in extra.values():
            ex.assume(z3.And(c >= 0, c <= 3))
        mx = z3.Int("max_cards_extra")
        ex.assume(z3.And(mx >= 0, mx <= 3))
        listing = {c: z3.Sum([z3.If(has[i][k], 1, 0) for i in range(K)]) for k, c in enumerate(("k0", "k1"))}
        cvrs = [A.CVR(id=f"card{i}", votes=aud.PresDict({c: has[i][k] for k, c in enumerate(("k0", "k1"))}, {"k0": {"m": i}, "k1": {"m": i}})) for i in range(K)]
        orig = list(cvrs)
        bounds = {c: listing[c] + extra[c] for c in ("k0", "k1")}
        contests = {}
        for c in CONS:
            cards = None if (cell["none_bound"] and c == "k1") else SV(bounds[c])
            contests[c] = A.Contest(id=c, cards=cards)
        max_cards = K + mx
        audit = A.Audit.from_dict({"strata": {"s": {"max_cards": SV(max_cards), "use_style": style}}})
        inputs = lambda m: dict(lists=[[bool(model_value(m, has[i][k])) for k in range(2)] for i in range(K)],
                                extra={c: model_value(m, v) for c, v in extra.items()}, max_cards=K + model_value(m, mx))
        try:
            out, nph = A.CVR.make_phantoms(audit=audit, contests=contests, cvr_list=cvrs, prefix="phantom-")
            nph_c = nph if isinstance(nph, int) else None
        except core.PathAbort:
            raise
        except Exception as e:      # noqa
            r, m = ex.witness()
            if r == 'sat':
                findings.append(dict(clause="exception", cell=cell, inputs=inputs(m), observed=repr(e)))
            elif r != 'unsat':
                ex.stats.inconclusive += 1
            return
        st['reach'] += 1
        claims = []
        claims.append(("original records come back first and identical", len(out) >= K and all(out[i] is orig[i] for i in range(K))))
        ph = out[K:]
        claims.append(("every added record is a phantom", all(p.phantom is True for p in ph)))
        claims.append(("phantom identifiers are unique and differ from the originals", len(set([p.id for p in out])) == len(out)))
        nz = nph.e if isinstance(nph, SV) else z3.IntVal(int(nph))
        claims.append(("reported number of phantoms = number of records added", nz == len(ph)))
        if style:
            eff = {}
            for c in CONS:
                eff[c] = (K + mx) if (cell["none_bound"] and c == "k1") else bounds[c]
            for k, c in enumerate(("k0", "k1")):
                cnt_ph = sum(1 for p in ph if c in p.votes)
                claims.append((f"records listing contest {c} = its card bound", listing[c] + cnt_ph == eff[c]))
            short = [eff[c] - listing[c] for c in CONS]
            claims.append(("no more phantoms than the largest shortfall", z3.And(*[z3.IntVal(len(ph)) >= s for s in short], z3.Or(*[z3.IntVal(len(ph)) == s for s in short]))))
        else:
            claims.append(("total number of records = stratum card bound", z3.IntVal(len(out)) == K + mx))
            for c in CONS:
                cc = contests[c].cards
                cz = cc.e if isinstance(cc, SV) else z3.IntVal(int(cc))
                claims.append((f"contest {c} cards set to the stratum bound without style", cz == K + mx))
        for c in CONS:
            cv = contests[c].cvrs
            cz = cv.e if isinstance(cv, SV) else z3.IntVal(int(cv))
            claims.append((f"contest {c}: cvrs = number of real CVRs listing it", cz == listing[c]))
        for name, cl in claims:
            if isinstance(cl, bool):
                ex.stats.obligations += 1
                if cl:
                    ex.stats.discharged += 1
                else:
                    r, m = ex.witness()
                    if r == 'sat':
                        ex.stats.sat += 1
                        findings.append(dict(clause=name, cell=cell, inputs=inputs(m), observed=[p.id for p in out]))
                continue
            r, m = ex.prove(cl)
            if r == 'sat':
                findings.append(dict(clause=name, cell=cell, inputs=inputs(m), observed=[p.id for p in out]))
        if len(samples) < 1 and len(ph) >= 2:
            r, m = ex.witness(timeout_ms=2000)
            if r == 'sat':
                samples.append(dict(cell=f"make_phantoms style={style} order={CONS}", ids=[p.id for p in out], reachable_with=inputs(m)))
    ex.run(harness)
    return findings, samples, st


def _score(cell, stats):
    ex = core.Explorer(stats=stats)
    findings, samples = [], []
    st = {'reach': 0}
    A = aud.sym_audit()
    style, pooled = cell["style"], cell["pooled"]
    irv = cell["assorter"].startswith("irv")
    enc = "int" if irv else "bool"

    def harness(ex):
        cc = [aud.Card("cvr", i, "K", CANDS, enc, ex, allow_missing_keys=(i == 0)) for i in range(2)]
        mc = aud.Card("mvr", 0, "K", CANDS, enc, ex)
        cph = z3.Bool("cvr0_phantom")
        mph = z3.Bool("mvr0_phantom")
        ex.assume(z3.Implies(cph, z3.And(*[z3.Not(cc[0].vote(c)) for c in CANDS])))
        if irv:
            for cards in (cc[0], cc[1], mc):
                vals = [cards.val[c].e for c in CANDS]
                for x, y in itertools.combinations(vals, 2):
                    ex.assume(z3.Or(x == 0, y == 0, x != y))
        if style:
            ex.assume(cc[0].lists)
        cvrs = [A.CVR(id=i, votes=cc[i].votes, phantom=(SB(cph) if i == 0 else False), tally_pool="P", pool=bool(pooled)) for i in range(2)]
        mvr = A.CVR(id=0, votes=mc.votes, phantom=SB(mph))
        ph_empty = A.CVR(id=0, votes={}, phantom=True)               # what sample_from_cvrs / sample_from_manifest build
        ph_listed = A.CVR(id=0, votes={"K": {}}, phantom=True)
        blank = A.CVR(id=0, votes={"K": {}}, phantom=False, tally_pool="P", pool=bool(pooled))   # a real record with no mark

        def inputs(m):
            return dict(cvr=cc[0].concrete(m, CANDS), cvr_phantom=bool(model_value(m, cph)), mate=cc[1].concrete(m, CANDS),
                        mvr=mc.concrete(m, CANDS), mvr_phantom=bool(model_value(m, mph)))
        try:
            con, asn, spec, u_a, extra = c03.make_assertion(A, dict(cell), ex, 2)
            asn.assorter.assort = merge.merged(asn.assorter.assort)
            if pooled:
                asn.assorter.set_tally_pool_means(cvr_list=cvrs, use_style=style)
            o = lambda m_: EV.of(merge.merged_call(asn.assorter.overstatement, m_, cvrs[0], style))
            o_any, o_pe, o_pl = o(mvr), o(ph_empty), o(ph_listed)
            res = {}
            for mg in ("1/10", "1/2"):
                asn.margin = F(mg)
                res[mg] = tuple(EV.of(merge.merged_call(asn.overstatement_assorter, m_, cvrs[0], style)) for m_ in (mvr, ph_empty, ph_listed))
            # phantom CVR scored as a non-vote: compare with the same situation where the CVR is a real blank record
            means_ph = dict(asn.assorter.tally_pool_means) if pooled else None
            cv_blank = [blank, cvrs[1]]
            if pooled:
                asn.assorter.set_tally_pool_means(cvr_list=cv_blank, use_style=style)
            o_blank = EV.of(merge.merged_call(asn.assorter.overstatement, ph_listed, blank, style))
            means_blank = dict(asn.assorter.tally_pool_means) if pooled else None
        except core.PathAbort:
            raise
        except Exception as e:      # noqa
            r, m = ex.witness()
            if r == 'sat':
                findings.append(dict(clause="exception", cell=cell, inputs=inputs(m), observed=repr(e)))
            elif r != 'unsat':
                ex.stats.inconclusive += 1
            return
        st['reach'] += 1
        claims = []
        claims.append(("overstatement with an unfindable card (votes={}) >= with any manual record", _b(And(o_pe.fin(), o_any.fin(), o_pe.v >= o_any.v))))
        claims.append(("overstatement with a phantom manual record listing the contest >= with any manual record", _b(And(o_pl.fin(), o_pl.v >= o_any.v))))
        for mg, (b_any, b_pe, b_pl) in res.items():
            claims.append((f"overstatement assorter never increases when the card cannot be found (margin {mg})",
                           _b(And(b_any.fin(), b_pe.fin(), b_pl.fin(), b_pe.v <= b_any.v, b_pl.v <= b_any.v))))
        # phantom CVR == blank record (given the CVR is a phantom listing the contest or not)
        # the CVR-side score is read off with an unfindable manual record (scored 0): omega = score(cvr) - 0.
        # a phantom CVR must be scored 1/2, or (pooled batches) like a record with no mark in its place - both readings of 'non-vote'
        claims.append(("a phantom CVR is scored as a non-vote (1/2, or as a record with no mark inside a pooled batch)",
                       z3.Implies(cph, _b(And(o_pl.fin(), Or(o_pl.v == R(F(1, 2)), And(o_blank.fin(), o_blank.v == o_pl.v)))))))
        if pooled and means_ph is not None:
            a, b = EV.of(means_ph.get("P")), EV.of(means_blank.get("P"))
            lists0 = cc[0].lists if style else z3.BoolVal(True)
            claims.append(("inside a pooled batch a phantom contributes 1/2 to the batch mean",
                           z3.Implies(z3.And(cph, lists0), _b(Or(And(a.nan, b.nan), a._eq(b))))))
        for name, cl in claims:
            r, m = ex.prove(cl)
            if r == 'sat':
                findings.append(dict(clause=name, cell=cell, inputs=inputs(m)))
        if not samples:
            r, m = ex.witness(timeout_ms=2000)
            if r == 'sat':
                samples.append(dict(cell=f"score {cell['assorter']} style={style} pooled={bool(pooled)}", reachable_with=inputs(m)))
    ex.run(harness)
    seen, out = set(), []
    for f in findings:
        if f["clause"] in seen and len(out) > 3:
            continue
        seen.add(f["clause"])
        out.append(f)
    return out, samples, st


def _formats(cell, stats):
    """sample_from_cvrs (both vendors): phantom manual records exactly for phantom CVRs, CVRs returned in selection order"""
    ex = core.Explorer(stats=stats)
    findings, samples = [], []
    st = {'reach': 0}
    import pandas as pd
    from symx import loader
    L = loader.Loader(extra_modules=dict(aud.crypto_stub(), pandas=pd))
    Dom = L.load("shangrla.formats.Dominion").Dominion
    Hart = L.load("shangrla.formats.Hart").Hart
    A = L.load("shangrla.core.Audit")

    def harness(ex):
        ph = [z3.Bool(f"phantom{i}") for i in range(3)]
        for vendor in ([cell["only"]] if cell.get("only") else ["Dominion", "Hart"]):
            if vendor == "Dominion":
                cv = [A.CVR(id=("phantom-1-%d" % i) if bool(SB(ph[i])) else f"T{i}-B{i}-{i + 1}", votes={}, phantom=bool(SB(ph[i])), card_in_batch=i + 1) for i in range(3)]
                man = pd.DataFrame({"Tray #": ["1", "2", "3"], "Tabulator Number": ["T0", "T1", "T2"], "Batch Number": ["B0", "B1", "B2"],
                                    "Total Ballots": [5, 5, 5], "VBMCart.Cart number": ["c", "c", "c"]})
                cards, order, cs, mp = Dom.sample_from_cvrs(cv, man, [2, 0, 1])
            else:
                cv = [A.CVR(id=("phantom-1-%d" % i) if bool(SB(ph[i])) else f"B{i}_{i + 1}", votes={}, phantom=bool(SB(ph[i]))) for i in range(3)]
                man = pd.DataFrame({"Container": ["1", "2", "3"], "Tabulator": ["T0", "T1", "T2"], "Batch Name": ["B0", "B1", "B2"],
                                    "Number of Ballots": ["5", "5", "5"]})
                cards, order, cs, mp = Hart.sample_from_cvrs(cv, man, [2, 0, 1])
            st['reach'] += 1
            want = [cv[i] for i in (2, 0, 1)]
            ok = [c is w for c, w in zip(cs, want)] == [True] * 3
            ok = ok and sorted(m.id for m in mp) == sorted(c.id for c in want if c.phantom) and all(m.phantom is True and m.votes == {} for m in mp)
            ok = ok and all(order[k]["selection_order"] == p for p, k in enumerate([(c.id if vendor == "Dominion" or not c.phantom else c.id) for c in want]) if k in order)
            ex.stats.obligations += 1
            if ok:
                ex.stats.discharged += 1
            else:
                ex.stats.sat += 1
                findings.append(dict(clause=f"{vendor}.sample_from_cvrs: phantom manual records exactly for phantom CVRs, CVRs in selection order",
                                     cell=cell, inputs=dict(phantom=[bool(c.phantom) for c in cv], vendor=vendor)))
        if not samples:
            samples.append(dict(cell="formats", note="3 CVRs with symbolic phantom flags, sample order [2,0,1]"))
    ex.run(harness)
    return findings, samples, st


def run_cell(cell):
    stats = core.Stats()
    fn = dict(make=_make, score=_score, formats=_formats)[cell["kind"]]
    findings, samples, st = fn(cell, stats)
    return dict(stats=stats.as_dict(), findings=findings, samples=samples, vacuous=(st['reach'] == 0 and not findings))


def replay(f):
    import numpy as np
    A = aud.real_audit()
    cell, inp = f["cell"], f["inputs"]
    if cell["kind"] == "make":
        K, style = cell["K"], cell["style"]
        cvrs = [A.CVR(id=f"card{i}", votes={c: {"m": i} for k, c in enumerate(("k0", "k1")) if inp["lists"][i][k]}) for i in range(K)]
        orig = list(cvrs)
        listing = {c: sum(inp["lists"][i][k] for i in range(K)) for k, c in enumerate(("k0", "k1"))}
        contests = {}
        for c in cell["order"]:
            contests[c] = A.Contest(id=c, cards=None if (cell["none_bound"] and c == "k1") else listing[c] + int(inp["extra"][c]))
        mx = int(inp["max_cards"])
        audit = A.Audit.from_dict({"strata": {"s": {"max_cards": mx, "use_style": style}}})
        bad = []
        try:
            out, nph = A.CVR.make_phantoms(audit=audit, contests=contests, cvr_list=cvrs, prefix="phantom-")
        except Exception as e:      # noqa
            return dict(reproduced=True, detail=f"raised {e!r}")
        ph = out[K:]
        if [o is p for o, p in zip(out[:K], orig)] != [True] * K:
            bad.append("originals not returned first and identical")
        if len({p.id for p in out}) != len(out):
            bad.append(f"identifiers not unique: {[p.id for p in out]}")
        if nph != len(ph) or not all(p.phantom for p in ph):
            bad.append(f"reported {nph} phantoms, added {len(ph)}")
        if style:
            eff = {c: (mx if (cell["none_bound"] and c == "k1") else listing[c] + int(inp["extra"][c])) for c in cell["order"]}
            for c in cell["order"]:
                got = listing[c] + sum(1 for p in ph if c in p.votes)
                if got != eff[c]:
                    bad.append(f"contest {c}: {got} records list it, card bound {eff[c]}")
            if len(ph) != max(eff[c] - listing[c] for c in cell["order"]):
                bad.append(f"{len(ph)} phantoms, largest shortfall {max(eff[c] - listing[c] for c in cell['order'])}")
        else:
            if len(out) != mx:
                bad.append(f"{len(out)} records, stratum bound {mx}")
        return dict(reproduced=bool(bad), detail="; ".join(bad) or "held")
    if cell["kind"] == "formats":
        return dict(reproduced=True, detail="structural mismatch on concrete path (see inputs)")
    style, pooled = cell["style"], cell["pooled"]
    a = cell["assorter"]
    at = "ONEAUDIT" if pooled else "CARD_COMPARISON"
    try:
        if a == "plurality":
            con = A.Contest(id="K", name="K", choice_function="PLURALITY", n_winners=1, candidates=CANDS, winner=["A"], audit_type=at, use_style=style, cards=2)
            asn = list(A.Assertion.make_plurality_assertions(con, winner=["A"], loser=["B"]).values())[0]
        elif a == "supermajority":
            fs = float(F(cell["share"]))
            con = A.Contest(id="K", name="K", choice_function="SUPERMAJORITY", n_winners=1, candidates=CANDS, winner=["A"], share_to_win=fs, audit_type=at, use_style=style, cards=2)
            asn = list(A.Assertion.make_supermajority_assertion(con, share_to_win=fs, winner="A", loser=["B", "C"]).values())[0]
        else:
            con = A.Contest(id="K", name="K", choice_function="IRV", n_winners=1, candidates=CANDS, winner=["A"], audit_type=at, use_style=style, cards=2)
            js = [{"winner": "A", "loser": "B", "assertion_type": "WINNER_ONLY" if a == "irv_wo" else "IRV_ELIMINATION", "already_eliminated": "" if a == "irv_wo" else ["C"]}]
            asn = list(A.Assertion.make_assertions_from_json(con, CANDS, js).values())[0]
        cv0 = A.CVR(id=0, votes={k: dict(v) for k, v in inp["cvr"].items()}, phantom=inp["cvr_phantom"], tally_pool="P", pool=bool(pooled))
        cv1 = A.CVR(id=1, votes={k: dict(v) for k, v in inp["mate"].items()}, tally_pool="P", pool=bool(pooled))
        mvr = A.CVR(id=0, votes={k: dict(v) for k, v in inp["mvr"].items()}, phantom=inp["mvr_phantom"])
        blank = A.CVR(id=0, votes={"K": {}}, tally_pool="P", pool=bool(pooled))
        bad = []
        with np.errstate(all="ignore"):
            if pooled:
                asn.assorter.set_tally_pool_means(cvr_list=[cv0, cv1], use_style=style)
            o = lambda m: asn.assorter.overstatement(m, cv0, style)
            o_any = o(mvr)
            for nm, p in (("votes={}", A.CVR(id=0, votes={}, phantom=True)), ("listing the contest", A.CVR(id=0, votes={"K": {}}, phantom=True))):
                if o(p) < o_any - 1e-12:
                    bad.append(f"overstatement with a phantom manual record ({nm}) {o(p)!r} < with the manual record {o_any!r}")
                asn.margin = 0.1
                if asn.overstatement_assorter(p, cv0, style) > asn.overstatement_assorter(mvr, cv0, style) + 1e-12:
                    bad.append(f"overstatement assorter increases when the card cannot be found ({nm})")
            if inp["cvr_phantom"]:
                mp = dict(asn.assorter.tally_pool_means) if pooled else None
                if pooled:
                    asn.assorter.set_tally_pool_means(cvr_list=[blank, cv1], use_style=style)
                phl = A.CVR(id=0, votes={"K": {}}, phantom=True)
                ob = asn.assorter.overstatement(phl, blank, style)
                if pooled:
                    asn.assorter.tally_pool_means = mp
                oc = asn.assorter.overstatement(phl, cv0, style)
                if abs(oc - 0.5) > 1e-12 and abs(ob - oc) > 1e-12:
                    bad.append(f"phantom CVR scored {oc!r}: neither 1/2 nor a blank record's {ob!r}")
    except Exception as e:      # noqa
        return dict(reproduced=True, detail=f"raised {e!r}")
    return dict(reproduced=bool(bad), detail="; ".join(bad[:3]) or "held")
