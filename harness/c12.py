"""C12 - test statistics equal their published definitions; ALPHA and betting forms agree."""
import math
from fractions import Fraction as F

import z3

from symx import core, merge, npmodel, norm
from symx.core import SV, SB, model_value
from symx.ev import EV, And, Or, Not, _b, R, in_unit, ev_min
from . import nnm

PROPERTY = "C12"
META = dict(
    files=nnm.FILES,
    functions=["NonnegMean.alpha_mart", "betting_mart", "kaplan_kolmogorov", "kaplan_markov", "kaplan_wald", "wald_sprt", "sjm",
               "lam_to_eta", "eta_to_lam", "fixed_alternative_mean", "shrink_trunc", "optimal_comparison", "fixed_bet", "agrapa"],
    explanation="The statistic is cut at cumprod (observed inside the numpy model). (1) every one-step factor computed by the real code equals "
                "the published factor written by the oracle from x, its own null means m_j and the code's own eta_j/lam_j (exact "
                "rational-function normaliser, else solver); (2) with the products replaced by shared abstract values T_j the reported "
                "history equals min(1,1/T_j) on the regular region and the overall value is min/last; (3) conventions: entry 0 once "
                "the total seen exceeds N t, entry 1 where m_j > u; (4) alpha_mart driven by lam_to_eta(bet) has factor-wise the same "
                "statistic as betting_mart and the same history; (5) the two conversions are mutual inverses for 0 < mu < u; (6) the call leaves "
                "the supplied sample array unchanged (in-place operators and asarray aliasing modelled), so a second call sees the same sample.",
    bounds={"quick": {"n": [2, 3], "N": "n, n+3, inf", "ut": "plur, cmp10"},
            "thorough": {"n": [2, 3, 4], "N": "n, n+1, n+3, 50, inf", "ut": list(nnm.UT)}},
    outside=["samples longer than the bound", "floating-point rounding", "views sharing memory with the caller's array (slices are copies in the model)",
             "the region where the code's isclose-conventions fire: m_j within 1e-7 of 0 or within 1e-4 (relative) of u"],
    assumptions=["same parameter ranges as C11", "regular region: 1e-7 <= m_i <= u(1-1e-4) for all i <= j"],
    trusted=["exact sparse-polynomial normaliser (symx.norm)", "float model = exact reals + IEEE special values"],
)
LO = F(1, 10 ** 7)
HI = 1 - F(1, 10 ** 4)


def cells(tier):
    out = []
    ns = [2, 3] if tier == "quick" else [2, 3, 4]
    for m in nnm.METHODS:
        for n in ns:
            Ns = [n, n + 3, "inf"] if tier == "quick" else nnm.n_grid(m, n)
            for N in [N for N in Ns if N in nnm.n_grid(m, n)]:
                for ut in (["plur", "cmp10"] if tier == "quick" else nnm.ut_grid(m, tier)):
                    if m[2] == "optimal_comparison" and ut == "plur":
                        continue
                    for ro in ((True, False) if n == 2 else (True,)):
                        if m[0] == "wald_sprt" and N != "inf" and not ro:
                            continue
                        fixed = {"d": 100 if n % 2 else 1} if m[2] == "shrink_trunc" else {}
                        if m[2] == "shrink_trunc" and tier == "quick" and N != "inf":
                            fixed["f"] = 0
                        out.append(dict(kind="definition", method=list(m), n=n, N=N, ut=ut, ro=ro, fixed=fixed))
    for bet in ("fixed_bet", "agrapa"):
        for n in ns:
            for N in ([n, n + 3, "inf"] if tier == "quick" else [n, n + 1, n + 3, 50, "inf"]):
                for ut in (["plur", "cmp10"] if tier == "quick" else list(nnm.UT)):
                    if tier == "quick" and bet == "agrapa" and n == 3 and N != "inf":
                        continue      # the exact normaliser needs ~30-50 s for these: thorough tier
                    out.append(dict(kind="equivalence", method=["betting_mart", "bet", bet], n=n, N=N, ut=ut, ro=True, fixed={}))
    # integer-typed samples (0/1 tallies given as ints): the statistic must be the same function of the values
    for m in nnm.METHODS:
        if m[2] in ("shrink_trunc", "agrapa", "optimal_comparison") or m[0] == "kaplan_kolmogorov":
            continue
        for N in ("inf", 5):
            if N not in nnm.n_grid(m, 2) and N != 5:
                continue
            out.append(dict(kind="definition", method=list(m), n=2, N=N, ut="plur", ro=True, fixed={}, xk="int01"))
    out.append(dict(kind="inverse"))
    return out


# ---------------------------------------------------------------------------------------------
def spec_factors(inst, etas=None, lams=None):
    """published one-step factors as z3 reals (regular region assumed by the caller), plus the null means"""
    test = inst.cfg["method"][0]
    xs = [nnm.xr(x) for x in inst.xs]
    u, t = R(inst.u), R(inst.t)
    n = len(xs)
    if test == "kaplan_kolmogorov":
        g = inst.params["g"]
        Nr = z3.ToReal(inst.Nz)
        out, ms = [], []
        S = z3.RealVal(0)
        for j, x in enumerate(xs, start=1):
            m = (Nr * (t + g) - S) / (Nr - (j - 1))
            ms.append(m)
            out.append((x + g) / m)
            S = S + x + g
        return out, ms
    if test == "kaplan_markov":      # history is the running product of the p-factors (t+g)/(x+g)
        g = inst.params["g"]
        return [(t + g) / (x + g) for x in xs], [t] * n
    if test == "kaplan_wald":
        g = inst.params["g"]
        return [(1 - g) * x / t + g for x in xs], [t] * n
    ms = nnm.null_means(inst)
    if test == "betting_mart":
        return [1 + lams[j] * (xs[j] - ms[j]) for j in range(n)], ms
    if test == "wald_sprt":
        eta = inst.params["eta"]
        if inst.Nz is None:
            etas = [eta] * n
        else:
            Nr = z3.ToReal(inst.Nz)
            etas = []
            S = z3.RealVal(0)
            for j, x in enumerate(xs, start=1):
                e = (Nr * eta - S) / (Nr - (j - 1))
                etas.append(z3.If(e <= u, e, u))
                S = S + x
    return [(xs[j] * etas[j] / ms[j] + (u - xs[j]) * (u - etas[j]) / (u - ms[j])) / u for j in range(n)], ms


def rule_values(inst):
    """the code's own eta_j / lam_j sequences as z3 reals (finite by C13; here only the value part is used)"""
    kind = inst.cfg["method"][1]
    if kind is None:
        return None, None
    fn = inst.T.estim if kind == "estim" else inst.T.bet
    v = merge.merged_call(fn, inst.x)
    vs = list(v) if isinstance(v, npmodel.Arr) else [v] * inst.n
    if len(vs) == 1:
        vs = vs * inst.n
    zs = [EV.of(q).v for q in vs]
    return (zs, None) if kind == "estim" else (None, zs)


def equal_terms(ex, a, b, assumptions_extra=()):
    """decide a == b (z3 reals) under the path condition: term identity, exact normaliser, then solver.
    -> ('unsat'|'sat'|'unknown', model)"""
    ex.stats.obligations += 1
    if z3.simplify(a).eq(z3.simplify(b)):
        ex.stats.discharged += 1
        return 'unsat', None
    r = norm.identical(a, b, ex.full_pc() + list(assumptions_extra))
    if r is True:
        ex.stats.discharged += 1
        ex.stats.norm_identities += 1
        return 'unsat', None
    ex.stats.obligations -= 1
    return ex.prove(z3.Implies(z3.And(*assumptions_extra) if assumptions_extra else z3.BoolVal(True), a == b))


def regular_strict(inst):
    test = inst.cfg["method"][0]
    if test in ("kaplan_markov", "kaplan_wald", "kaplan_kolmogorov"):
        return nnm.regular_conds(inst)
    ms = nnm.null_means(inst)
    u = R(inst.u)
    return [z3.And(m >= R(LO), m <= u * R(HI)) for m in ms]


class DefCut(nnm.Cut):
    """abstracting cut that also remembers the factors and the abstract products of the first cumprod call"""

    def __init__(self, inst, k):
        super().__init__(inst, "abstract", k=k)
        self.first = None
        self.ncalls = 0

    def __call__(self, name, arg):
        if name != 'cumprod':
            return None
        res = super().__call__(name, arg)
        self.ncalls += 1
        if res is not None and self.first is None and len(arg) == self.inst.n:
            self.first = (npmodel.Arr(list(arg.a)), npmodel.Arr(list(res.a)))      # copies: the code overwrites entries in place
        return res


def _definition(cell, mode, stats):
    ex = core.Explorer(stats=stats)
    findings, samples = [], []
    st = {'reach': 0, 'open': 0}
    test = cell["method"][0]
    n = cell["n"]

    def harness(ex):
        inst = nnm.build(ex, cell, x_kind=cell.get("xk", "real"))
        u, t = R(inst.u), R(inst.t)
        strict = regular_strict(inst)
        k = nnm.split_by_first_irregular(ex, nnm.regular_conds(inst))
        # positions that are irregular in the strict sense but still inside (0,u) belong to the code's isclose conventions:
        # they are outside this property's regular region and are not compared (claims are guarded by `strict`)
        sg = [z3.And(*strict[:j + 1]) for j in range(n)]
        supplied = list(inst.x.a)
        try:
            etas, lams = rule_values(inst)
            if mode == "abstract":
                cut = DefCut(inst, k)
                with cut:
                    p, hist = merge.merged_call(inst.T.test, inst.x)
            else:
                cut = nnm.Cut(inst, "record")
                with cut:
                    p, hist = merge.merged_call(inst.T.test, inst.x)
        except Exception as e:      # noqa
            r, m = ex.witness()
            if r == 'sat':
                findings.append(dict(clause="exception", cell=cell, inputs=nnm.model_inputs(m, inst), observed=repr(e)))
            elif r != 'unsat':
                ex.stats.inconclusive += 1
            return
        st['reach'] += 1
        hs = [EV.of(h) for h in hist]
        spec, ms = spec_factors(inst, etas, lams)
        claims = []      # (name, kind, payload)
        xs = [nnm.xr(x) for x in inst.xs]
        Ssum = [sum(xs[:j], z3.RealVal(0)) for j in range(n + 1)]
        finite_N = inst.Nz is not None and test in ("alpha_mart", "betting_mart", "wald_sprt")
        if mode == "abstract":
            if cut.first is None:
                st['open'] += 1      # no usable cut: decide on exact products
            else:
                arg, T = cut.first
                for j in range(k):
                    claims.append((f"factor[{j + 1}] equals the published factor", "eq", (EV.of(arg.a[j]).v, spec[j], strict[j])))
                for j in range(k):
                    Tj = EV.of(T.a[j])
                    if test == "kaplan_markov":
                        want = ev_min(Tj, 1)
                    else:
                        want = ev_min(1, EV.of(1) / Tj)
                    # before the last draw the history is the statistic; at the last draw the total may exceed N t (convention below)
                    guard = sg[j]
                    if finite_N and j == n - 1:
                        guard = z3.And(guard, Ssum[n] <= z3.ToReal(inst.Nz) * t)
                    claims.append((f"history[{j + 1}] = min(1, 1/T_{j + 1})", "bool", z3.Implies(guard, _b(hs[j]._eq(want)))))
        else:
            # exact: compare the reported history with the published product directly
            Tacc = None
            for j in range(k):
                Tacc = spec[j] if Tacc is None else Tacc * spec[j]
                Tj = EV(Tacc)
                want = ev_min(Tj, 1) if test == "kaplan_markov" else ev_min(1, EV.of(1) / Tj)
                guard = sg[j]
                if finite_N and j == n - 1:
                    guard = z3.And(guard, Ssum[n] <= z3.ToReal(inst.Nz) * t)
                claims.append((f"history[{j + 1}] = min(1, 1/prod of published factors)", "bool", z3.Implies(guard, _b(hs[j]._eq(want)))))
        # the sample is the caller's array: a call that altered it would make the next call report on different data
        if len(inst.x.a) != n or any(a is not b for a, b in zip(inst.x.a, supplied)):
            same = And(*[EV.of(a)._eq(EV.of(b)) for a, b in zip(inst.x.a, supplied)]) if len(inst.x.a) == n else False
            claims.append(("the call leaves the supplied sample array unchanged", "bool", _b(same)))
        # conventions (all paths)
        if finite_N:
            Nt = z3.ToReal(inst.Nz) * t
            for j in range(n):
                claims.append((f"history[{j + 1}] = 0 once the total before it exceeds N t", "bool",
                               z3.Implies(Ssum[j] > Nt, _b(hs[j]._eq(EV.of(0))))))
                claims.append((f"history[{j + 1}] = 1 where m_j > u", "bool", z3.Implies(ms[j] > u, _b(hs[j]._eq(EV.of(1))))))
            claims.append((f"last entry and overall p = 0 when the sample total exceeds N t", "bool",
                           z3.Implies(Ssum[n] > Nt, _b(And(hs[n - 1]._eq(EV.of(0)), EV.of(p)._eq(EV.of(0)))))))
        pe = EV.of(p)
        if cell["ro"]:
            claims.append(("overall = min(history)", "bool", _b(EV.of(npmodel.min(npmodel.Arr(hs)))._eq(pe))))
        else:
            claims.append(("overall = history[-1]", "bool", _b(hs[-1]._eq(pe))))
        for name, kd, payload in claims:
            if kd == "eq":
                r, mdl = equal_terms(ex, payload[0], payload[1], [payload[2]])
            else:
                if mode == "abstract":
                    before = (ex.stats.inconclusive, ex.stats.sat, ex.stats.obligations)
                    r, mdl = ex.prove(payload, timeout_ms=8000)
                    if r != 'unsat':
                        ex.stats.inconclusive, ex.stats.sat, ex.stats.obligations = before
                else:
                    r, mdl = ex.prove(payload)
            if r != 'unsat':
                if mode == "abstract" and kd != "eq":
                    st['open'] += 1
                    st.setdefault('open_names', []).append((name, r))
                elif r == 'sat':
                    findings.append(dict(clause=name, cell=cell, inputs=nnm.model_inputs(mdl, inst)))
        if not samples:
            r, mdl = ex.witness(timeout_ms=5000)
            if r == 'sat':
                samples.append(dict(cell="definition " + nnm.method_id(cell["method"]) + f" n={n} N={cell['N']} {cell['ut']} first_irregular={k + 1 if k < n else None}",
                                    stage=mode, reachable_with=nnm.model_inputs(mdl, inst)))
    ex.run(harness)
    return findings, samples, st


def _equivalence(cell, stats):
    """alpha_mart with eta_j := lam_to_eta(lam_j, m_j) has the same one-step factors and the same history as betting_mart"""
    ex = core.Explorer(stats=stats)
    findings, samples = [], []
    st = {'reach': 0}
    n = cell["n"]
    M = nnm.sym_module()

    def harness(ex):
        inst = nnm.build(ex, cell)
        k = nnm.split_by_first_irregular(ex, nnm.regular_conds(inst))
        NM = M.NonnegMean

        def conv_estim(self, x, **kw):
            _S, _Stot, _j, m = self.sjm(self.N, self.t, x)
            return self.lam_to_eta(self.bet(x), m)
        Ta = NM(test=NM.alpha_mart, estim=conv_estim, bet=getattr(NM, cell["method"][2]), u=inst.u, N=inst.N, t=inst.t, **inst.kw)
        try:
            cb = DefCut(inst, k)
            with cb:
                pb, hb = merge.merged_call(inst.T.test, inst.x)
            if cb.first is None:
                ex.stats.inconclusive += 1
                return
            fb, Tb = cb.first
            table = {'fb': fb, 'Tb': Tb, 'bad': []}

            class Follow:
                def __call__(self2, name, arg):
                    if name != 'cumprod' or len(arg) != n:
                        return None
                    for j in range(k):
                        r, mdl = equal_terms(core.cur(), EV.of(arg.a[j]).v, EV.of(fb.a[j]).v)
                        if r != 'unsat':
                            table['bad'].append((j, r, mdl))
                            return None
                    return npmodel.Arr(list(Tb.a))
            fo = Follow()
            npmodel.OBSERVERS.append(fo)
            try:
                pa, ha = merge.merged_call(Ta.test, inst.x)
            finally:
                npmodel.OBSERVERS.remove(fo)
        except Exception as e:      # noqa
            r, m = ex.witness()
            if r == 'sat':
                findings.append(dict(clause="exception", cell=cell, inputs=nnm.model_inputs(m, inst), observed=repr(e)))
            elif r != 'unsat':
                ex.stats.inconclusive += 1
            return
        st['reach'] += 1
        for j, r, mdl in table['bad']:
            if r == 'sat':
                findings.append(dict(clause=f"ALPHA factor[{j + 1}] with eta=lam_to_eta(lam,m) equals the betting factor", cell=cell,
                                     inputs=nnm.model_inputs(mdl, inst)))
            else:
                ex.stats.inconclusive += 1
        if table['bad']:
            return
        for j in range(n):
            a, b = EV.of(ha[j]), EV.of(hb[j])
            r, mdl = ex.prove(_b(Or(And(a.nan, b.nan), a._eq(b))))
            if r == 'sat':
                findings.append(dict(clause=f"ALPHA history[{j + 1}] equals betting history", cell=cell, inputs=nnm.model_inputs(mdl, inst)))
        r, mdl = ex.prove(_b(EV.of(pa)._eq(EV.of(pb))))
        if r == 'sat':
            findings.append(dict(clause="ALPHA overall p equals betting overall p", cell=cell, inputs=nnm.model_inputs(mdl, inst)))
        if not samples:
            r, mdl = ex.witness(timeout_ms=5000)
            if r == 'sat':
                samples.append(dict(cell="equivalence " + nnm.method_id(cell["method"]) + f" n={n} N={cell['N']} {cell['ut']}",
                                    reachable_with=nnm.model_inputs(mdl, inst)))
    ex.run(harness)
    return findings, samples, st


def _inverse(cell, stats):
    ex = core.Explorer(stats=stats)
    findings, samples = [], []
    M = nnm.sym_module()

    def harness(ex):
        u, mu, lam, eta = z3.Real("u"), z3.Real("mu"), z3.Real("lam"), z3.Real("eta")
        ex.assume(z3.And(u > 0, mu > 0, mu < u))
        T = M.NonnegMean(u=EV(u))
        back = T.eta_to_lam(T.lam_to_eta(EV(lam), EV(mu)), EV(mu))
        forth = T.lam_to_eta(T.eta_to_lam(EV(eta), EV(mu)), EV(mu))
        spec = T.lam_to_eta(EV(lam), EV(mu))
        for name, a, b in (("eta_to_lam(lam_to_eta(lam, mu), mu) = lam", EV.of(back), EV(lam)),
                           ("lam_to_eta(eta_to_lam(eta, mu), mu) = eta", EV.of(forth), EV(eta)),
                           ("lam_to_eta(lam, mu) = mu (1 + lam (u - mu))", EV.of(spec), EV(mu * (1 + lam * (u - mu))))):
            r1, m1 = ex.prove(_b(a.fin()))
            r, mdl = equal_terms(ex, a.v, b.v)
            for rr, mm in ((r1, m1), (r, mdl)):
                if rr == 'sat':
                    findings.append(dict(clause=name, cell=cell, inputs={q: model_value(mm, z) for q, z in (("u", u), ("mu", mu), ("lam", lam), ("eta", eta))}))
        # also array arguments
        samples.append(dict(cell="inverse", note="u, mu, lam, eta symbolic with 0 < mu < u"))
    ex.run(harness)
    return findings, samples, {'reach': 1}


def run_cell(cell):
    stats = core.Stats()
    notes = []
    if cell["kind"] == "inverse":
        findings, samples, st = _inverse(cell, stats)
    elif cell["kind"] == "equivalence":
        findings, samples, st = _equivalence(cell, stats)
    else:
        findings, samples, st = _definition(cell, "abstract", stats)
        if st['open'] and not findings:
            f2, s2, st2 = _definition(cell, "exact", stats)
            findings = f2
            samples = samples or s2
            notes.append(f"exact stage used for {nnm.method_id(cell['method'])} n={cell['n']} N={cell['N']} {cell['ut']}")
    # the same counterexample found on several paths is reported once per clause
    return dict(stats=stats.as_dict(), findings=findings, samples=samples, notes=notes, vacuous=(st['reach'] == 0 and not findings))


# ---------------------------------------------------------------------------------------------
def _spec_history(cell, inp, T, x):
    """published statistic in exact rational arithmetic from the float inputs, with the code's own eta/lam"""
    import numpy as np
    test, kind, rule = cell["method"]
    u, t = (F(float(v)) for v in nnm.UT[cell["ut"]])
    N = T.N
    xs = [F(float(v)) for v in x]
    n = len(xs)
    g = F(float(inp.get("g", 0)))
    with np.errstate(all="ignore"):
        if kind == "estim":
            rv = np.broadcast_to(np.asarray(T.estim(x), dtype=float), (n,))
        elif kind == "bet":
            rv = np.broadcast_to(np.asarray(T.bet(x), dtype=float), (n,))
        else:
            rv = None
    out = []
    Tacc = F(1)
    S = F(0)
    Sg = F(0)
    for j in range(n):
        fin = math.isfinite(N)
        m = (F(N) * t - S) / (F(N) - j) if fin else t
        if test == "kaplan_kolmogorov":
            mg = (F(N) * (t + g) - Sg) / (F(N) - j)
            if mg <= 0:
                out.append(None)
                break
            f = (xs[j] + g) / mg
        elif test == "kaplan_markov":
            if xs[j] + g == 0:
                out.append(None)
                break
            f = (t + g) / (xs[j] + g)
        elif test == "kaplan_wald":
            f = (1 - g) * xs[j] / t + g
        else:
            if not (LO <= m <= u * HI):
                out.append(None)
                break
            if test == "betting_mart":
                f = 1 + F(float(rv[j])) * (xs[j] - m)
            else:
                if test == "wald_sprt":
                    eta = F(float(inp["eta"]))
                    e = min(u, (F(N) * eta - S) / (F(N) - j)) if fin else eta
                else:
                    e = F(float(rv[j]))
                f = (xs[j] * e / m + (u - xs[j]) * (u - e) / (u - m)) / u
        Tacc *= f
        S += xs[j]
        Sg += xs[j] + g
        if test == "kaplan_markov":
            out.append(min(F(1), Tacc))
        else:
            out.append(F(1) if Tacc <= 0 else min(F(1), 1 / Tacc))
        if math.isfinite(N) and test in ("alpha_mart", "betting_mart", "wald_sprt") and j == n - 1 and S > F(N) * t:
            out[-1] = F(0)
    return out


def replay(f):
    import numpy as np
    cell = f["cell"]
    inp = f["inputs"]
    if cell["kind"] == "inverse":
        NMmod = nnm.loader.real_module("shangrla.core.NonnegMean")
        u, mu, lam, eta = (float(F(inp[k])) for k in ("u", "mu", "lam", "eta"))
        T = NMmod.NonnegMean(u=u)
        bad = []
        with np.errstate(all="ignore"):
            b = T.eta_to_lam(T.lam_to_eta(lam, mu), mu)
            if not abs(b - lam) <= 1e-7 * max(1, abs(lam)):
                bad.append(f"eta_to_lam(lam_to_eta({lam},{mu}),{mu}) = {b}")
            if abs(eta) < 1e6 * max(mu, 1):
                c = T.lam_to_eta(T.eta_to_lam(eta, mu), mu)
                if not abs(c - eta) <= 1e-7 * max(1, abs(eta)):
                    bad.append(f"lam_to_eta(eta_to_lam({eta},{mu}),{mu}) = {c}")
            d = T.lam_to_eta(lam, mu)
            if not abs(d - mu * (1 + lam * (u - mu))) <= 1e-7 * max(1, abs(d)):
                bad.append(f"lam_to_eta({lam},{mu}) = {d} (u={u})")
        return dict(reproduced=bool(bad), detail="; ".join(bad) or "held")
    T, NMmod = nnm.real_instance(cell, inp)
    x = np.array([int(F(str(v))) for v in inp["x"]]) if cell.get("xk") == "int01" else np.array([nnm.fl(v) for v in inp["x"]])
    x0 = x.copy()
    n = len(x)
    bad = []
    try:
        with np.errstate(all="ignore"):
            p, hist = T.test(x)
            hist = np.asarray(hist, dtype=float)
            if not np.array_equal(x, x0):
                bad.append(f"the call changed the supplied sample array from {x0.tolist()} to {x.tolist()}: a second call on it reports on different data")
                x = x0.copy()
            if cell["kind"] == "equivalence":
                NM = NMmod.NonnegMean

                def conv_estim(self, xx, **kw):
                    _S, _Stot, _j, m = self.sjm(self.N, self.t, xx)
                    return self.lam_to_eta(self.bet(xx), m)
                kw = {k: float(F(v)) for k, v in inp.items() if k not in ("x", "N")}
                Ta = NM(test=NM.alpha_mart, estim=conv_estim, bet=getattr(NM, cell["method"][2]), u=T.u, N=T.N, t=T.t, **kw)
                pa, ha = Ta.test(x)
                ha = np.asarray(ha, dtype=float)
                for j in range(n):
                    if not (abs(ha[j] - hist[j]) <= 1e-7 * max(abs(hist[j]), 1e-12) or (math.isnan(ha[j]) and math.isnan(hist[j]))):
                        bad.append(f"ALPHA history[{j + 1}]={ha[j]!r} vs betting {hist[j]!r}")
                if not abs(float(pa) - float(p)) <= 1e-7 * max(abs(float(p)), 1e-12):
                    bad.append(f"ALPHA p={float(pa)!r} vs betting p={float(p)!r}")
            else:
                spec = _spec_history(cell, inp, T, x)
                for j, w in enumerate(spec):
                    if w is None:
                        break
                    if not abs(hist[j] - float(w)) <= 1e-7 * max(float(w), 1e-12):
                        bad.append(f"history[{j + 1}]={hist[j]!r} but the published statistic gives {float(w)!r}")
                fin = math.isfinite(T.N) and cell["method"][0] in ("alpha_mart", "betting_mart", "wald_sprt")
                if fin:
                    S = F(0)
                    Nt = F(T.N) * F(float(T.t))
                    u = F(float(T.u))
                    for j in range(n):
                        m = (Nt - S) / (F(T.N) - j)
                        if S > Nt and hist[j] != 0:
                            bad.append(f"history[{j + 1}]={hist[j]!r} although the total before it exceeds N t")
                        if m > u and hist[j] != 1:
                            bad.append(f"history[{j + 1}]={hist[j]!r} although m_j > u")
                        S += F(float(x[j]))
                    if S > Nt and (hist[-1] != 0 or float(p) != 0):
                        bad.append(f"sample total exceeds N t but last entry={hist[-1]!r}, p={float(p)!r}")
                want = float(np.min(hist)) if cell["ro"] else float(hist[-1])
                if not abs(float(p) - want) <= 1e-9 * max(1, abs(want)):
                    bad.append(f"overall p={float(p)!r} vs {want!r}")
    except Exception as e:      # noqa
        return dict(reproduced=True, detail=f"raised {e!r}")
    return dict(reproduced=bool(bad), detail="; ".join(bad[:4]) or "held")
