"""C07 - consistent sampling gives every contest the first cards of its own random order."""
import itertools
from fractions import Fraction as F

import z3

from symx import core, npmodel
from symx.core import SB, SV, model_value
from symx.ev import EV
from . import aud

PROPERTY = "C07"
META = dict(
    files=aud.FILES,
    functions=["CVR.consistent_sampling", "CVR.assign_sample_nums", "CVR.prep_comparison_sample", "Assertion.mvrs_to_data", "CVR.has_contest"],
    explanation="consistent_sampling is executed symbolically on M cards x C contests: which contests each card lists, the (distinct) "
                "sample numbers and the per-contest sample sizes are z3 variables; vote contents are poisoned objects that raise if read. "
                "Per path the returned indices, thresholds, `sampled` flags and the cards mvrs_to_data hands to each contest are compared "
                "with the specification written in z3 (first n_c cards of c's own sample-number order). Numbering: the i-th record gets the "
                "i-th PRNG output whether or not it already carried a number (symbolic presence and value of an earlier number).",
    bounds={"quick": {"shapes (cards x contests)": [[3, 2], [2, 2], [4, 1]]}, "thorough": {"shapes": [[4, 2], [3, 3], [5, 1], [3, 2]]}},
    outside=["more cards / contests than the shapes", "SHA-256 itself (sample numbers are arbitrary distinct integers below 2^55)"],
    assumptions=["distinct sample numbers", "0 <= n_c <= number of cards listing c (data clause: n_c >= 1; with n_c = 0 no threshold is set)", "PRNG stub: nextRandom() returns an arbitrary value per call; int_from_hash is the identity on it"],
    trusted=["symx numpy model (incl. exact int->float64 conversion below 2^55)"],
)


def cells(tier):
    shapes = [(3, 2), (2, 2), (4, 1)] if tier == "quick" else [(4, 2), (3, 3), (5, 1), (3, 2)]
    # one cell per order of the sample numbers (partitions the work; the union of the cells is every assignment)
    out = [dict(kind="select", M=M, C=C, perm=list(p)) for M, C in shapes for p in itertools.permutations(range(M))]
    out.append(dict(kind="prng", M=3))
    return out


def spec(M, C, pres, sn, n):
    """z3 spec: rank_c(i), selected_i"""
    rank = {(i, c): z3.Sum([z3.If(z3.And(pres[k][c], sn[k] < sn[i]), 1, 0) for k in range(M) if k != i]) if M > 1 else z3.IntVal(0)
            for i in range(M) for c in range(C)}
    sel = [z3.Or(*[z3.And(pres[i][c], rank[(i, c)] < n[c]) for c in range(C)]) for i in range(M)]
    return rank, sel


def run_cell(cell):
    from symx import pymodel
    pymodel.EXACT_FLOAT_OF_INT[0] = True      # sample numbers go beyond 2^53: float(n) rounds
    ex = core.Explorer()
    findings, samples = [], []
    st = {'reach': 0}
    A = aud.sym_audit()
    CVR, Contest, Assertion, Assorter = A.CVR, A.Contest, A.Assertion, A.Assorter

    def prng_harness(ex):
        M = cell["M"]
        outs = [z3.Int(f"r{i}") for i in range(M)]

        class P:
            def __init__(self):
                self.k = 0

            def nextRandom(self):
                self.k += 1
                return SV(outs[self.k - 1])
        # a record may already carry a number (renumbering with a new seed, records restored from a file): it must not matter
        had = [z3.Bool(f"had{i}") for i in range(M)]
        old = [z3.Int(f"old{i}") for i in range(M)]
        cv = [CVR(id=i, votes={"c": aud.Poison()}, sample_num=(SV(old[i]) if bool(SB(had[i])) else None)) for i in range(M)]
        ok = CVR.assign_sample_nums(cv, P())
        st['reach'] += 1
        for i in range(M):
            s = cv[i].sample_num
            good = isinstance(s, SV) and s.e.eq(outs[i])
            ex.stats.obligations += 1
            if good:
                ex.stats.discharged += 1
            else:
                r, mdl = ex.prove((s == SV(outs[i])))
                if r == 'sat':
                    findings.append(dict(clause="sample number i is the i-th PRNG output", cell=cell,
                                         inputs={"outputs": [model_value(mdl, o) for o in outs],
                                                 "previous_numbers": [int(model_value(mdl, old[k])) if bool(model_value(mdl, had[k])) else None for k in range(M)]}))
        samples.append(dict(cell="prng", note="sample numbers are the PRNG outputs in card order"))

    def harness(ex):
        M, C = cell["M"], cell["C"]
        sn = [z3.Int(f"s{i}") for i in range(M)]
        ex.assume(z3.Distinct(*sn) if M > 1 else z3.BoolVal(True))
        for s in sn:
            ex.assume(z3.And(s >= 0, s < 2 ** 55))
        perm = cell.get("perm")
        if perm:
            for a, b in zip(perm, perm[1:]):
                ex.assume(sn[a] < sn[b])
        pres = [[z3.Bool(f"has_{i}_{c}") for c in range(C)] for i in range(M)]
        n = [z3.Int(f"n{c}") for c in range(C)]
        for c in range(C):
            avail = z3.Sum([z3.If(pres[i][c], 1, 0) for i in range(M)])
            ex.assume(z3.And(n[c] >= 0, n[c] <= avail))
        cons = {f"k{c}": Contest(id=f"k{c}", sample_size=SV(n[c]), use_style=True, audit_type="CARD_COMPARISON") for c in range(C)}
        cvrs = [CVR(id=i, votes=aud.PresDict({f"k{c}": pres[i][c] for c in range(C)}, {f"k{c}": aud.Poison() for c in range(C)}),
                    sample_num=SV(sn[i])) for i in range(M)]
        inputs = lambda m: dict(lists=[[bool(model_value(m, pres[i][c])) for c in range(C)] for i in range(M)],
                                sample_nums=[model_value(m, s) for s in sn], sizes=[model_value(m, x) for x in n])
        try:
            res = CVR.consistent_sampling(cvrs, cons)
            res = [int(i) for i in res]
            # data handed to each contest's assertions (comparison audit with style): tag each pair by the card index
            data = {}
            order = {i: {"selection_order": p} for p, i in enumerate(res)}
            cs = [cvrs[i] for i in res]
            ms = [CVR(id=cvrs[i].id, votes=cvrs[i].votes) for i in res]
            CVR.prep_comparison_sample(ms, cs, order)
            for c in range(C):
                asn = Assertion(contest=cons[f"k{c}"], assorter=Assorter(contest=cons[f"k{c}"], assort=lambda v: 0, upper_bound=1), margin=0.1)
                asn.overstatement_assorter = lambda mvr, cvr, use_style=True: cvr.id
                if bool(SB(n[c] >= 1)):        # a contest with sample size 0 has no threshold and no data (outside the data clause)
                    d, u = asn.mvrs_to_data(ms, cs)
                    data[c] = [int(v) for v in d]
                else:
                    data[c] = None
        except core.PathAbort:
            raise
        except Exception as e:      # noqa
            r, m = ex.witness()
            if r == 'sat':
                findings.append(dict(clause="exception", cell=cell, inputs=inputs(m), observed=repr(e)))
            elif r != 'unsat':
                ex.stats.inconclusive += 1
            return
        st['reach'] += 1
        rank, sel = spec(M, C, pres, sn, n)
        claims = []
        claims.append(("no repetition", len(set(res)) == len(res)))
        claims.append(("selected cards = union over contests of the first n_c cards",
                       z3.And(*[sel[i] if i in res else z3.Not(sel[i]) for i in range(M)])))
        claims.append(("reported in sample-number order", z3.And(*[sn[res[p]] < sn[res[p + 1]] for p in range(len(res) - 1)]) if len(res) > 1 else True))
        for c in range(C):
            thr = cons[f"k{c}"].sample_threshold
            if thr is None:
                claims.append((f"threshold of contest {c} set when n_c >= 1", n[c] == 0))
            else:
                if isinstance(thr, EV):      # a threshold held as a float: compared as a real with the (integer) sample numbers
                    thr_e = thr.v
                else:
                    thr_e = thr.e if isinstance(thr, SV) else z3.IntVal(int(thr))
                claims.append((f"threshold of contest {c} = sample number of its n_c-th card",
                               z3.Implies(n[c] >= 1, z3.Or(*[z3.And(pres[i][c], rank[(i, c)] == n[c] - 1, thr_e == sn[i]) for i in range(M)]))))
            d = data[c]
            if d is not None:
                claims.append((f"data of contest {c} are exactly its first n_c cards in order",
                               z3.And(z3.IntVal(len(d)) == n[c], *[z3.And(pres[i][c], rank[(i, c)] == p) for p, i in enumerate(d)])))
        for i in range(M):
            flag = cvrs[i].sampled
            claims.append((f"sampled flag of card {i}", (flag is True or flag == 1) == (i in res) if isinstance(flag, (bool, int)) else False))
        for name, cl in claims:
            if isinstance(cl, bool):
                ex.stats.obligations += 1
                if cl:
                    ex.stats.discharged += 1
                    continue
                r, m = ex.witness()
                if r == 'sat':
                    ex.stats.sat += 1
                    findings.append(dict(clause=name, cell=cell, inputs=inputs(m), observed=dict(returned=res, data=data)))
                continue
            r, m = ex.prove(cl)
            if r == 'sat':
                findings.append(dict(clause=name, cell=cell, inputs=inputs(m), observed=dict(returned=res, data=data)))
        if len(samples) < 2 and res:
            r, m = ex.witness(timeout_ms=3000)
            if r == 'sat':
                samples.append(dict(cell=f"{M} cards x {C} contests", returned=res, reachable_with=inputs(m)))
    ex.run(prng_harness if cell["kind"] == "prng" else harness)
    return dict(stats=ex.stats.as_dict(), findings=findings, samples=samples, vacuous=(st['reach'] == 0 and not findings))


def replay(f):
    A = aud.real_audit()
    cell, inp = f["cell"], f["inputs"]
    if cell["kind"] == "prng":
        from cryptorandom.cryptorandom import SHA256, int_from_hash
        prev = inp.get("previous_numbers") or [None] * cell["M"]
        cv = [A.CVR(id=i, votes={}, sample_num=prev[i]) for i in range(cell["M"])]
        A.CVR.assign_sample_nums(cv, SHA256(12345))
        p = SHA256(12345)
        want = [int_from_hash(p.nextRandom()) for _ in cv]
        bad = [i for i, c in enumerate(cv) if c.sample_num != want[i]]
        return dict(reproduced=bool(bad), detail=f"cards {bad} do not carry the i-th PRNG output" if bad else "held")
    M, C = cell["M"], cell["C"]
    lists, sn, sizes = inp["lists"], [int(F(str(s))) for s in inp["sample_nums"]], [int(s) for s in inp["sizes"]]
    cons = {f"k{c}": A.Contest(id=f"k{c}", sample_size=sizes[c], use_style=True, audit_type="CARD_COMPARISON") for c in range(C)}
    cvrs = [A.CVR(id=i, votes={f"k{c}": {} for c in range(C) if lists[i][c]}, sample_num=sn[i]) for i in range(M)]
    bad = []
    try:
        res = [int(i) for i in A.CVR.consistent_sampling(cvrs, cons)]
    except Exception as e:      # noqa
        return dict(reproduced=True, detail=f"consistent_sampling raised {e!r}")
    exp = set()
    first = {}
    for c in range(C):
        cards = sorted([i for i in range(M) if lists[i][c]], key=lambda i: sn[i])
        first[c] = cards[:sizes[c]]
        exp |= set(first[c])
    want = sorted(exp, key=lambda i: sn[i])
    if res != want:
        bad.append(f"returned {res}, expected {want}")
    for c in range(C):
        thr = cons[f"k{c}"].sample_threshold
        if sizes[c] >= 1 and thr != sn[first[c][-1]]:
            bad.append(f"threshold of contest {c} is {thr}, expected {sn[first[c][-1]]}")
    for i in range(M):
        if bool(cvrs[i].sampled) != (i in exp):
            bad.append(f"sampled flag of card {i} is {cvrs[i].sampled}")
    try:
        order = {i: {"selection_order": p} for p, i in enumerate(res)}
        cs = [cvrs[i] for i in res]
        ms = [A.CVR(id=cvrs[i].id, votes=cvrs[i].votes) for i in res]
        A.CVR.prep_comparison_sample(ms, cs, order)
        for c in range(C):
            asn = A.Assertion(contest=cons[f"k{c}"], assorter=A.Assorter(contest=cons[f"k{c}"], assort=lambda v: 0, upper_bound=1), margin=0.1)
            asn.overstatement_assorter = lambda mvr, cvr, use_style=True: cvr.id
            if sizes[c] < 1:
                continue
            d, u = asn.mvrs_to_data(ms, cs)
            if [int(v) for v in d] != first[c]:
                bad.append(f"data of contest {c} come from cards {[int(v) for v in d]}, expected {first[c]}")
    except Exception as e:      # noqa
        bad.append(f"mvrs_to_data raised {e!r}")
    return dict(reproduced=bool(bad), detail="; ".join(bad) or "held")
