"""Shared harness for C04 / C15 (and the re-application clause of C14): symbolic execution of the RAIRE assertion search."""
import itertools
import types
from fractions import Fraction as F

import z3

from symx import core, loader, merge
from symx.core import SB, SV, model_value, concretize_int
from symx.ev import EV
from . import aud
from .c14 import SymBallot, ballot_vars

FILES = ["shangrla/raire/raire.py", "shangrla/raire/raire_utils.py", "shangrla/raire/sample_estimator.py"]
FUNCS = ["compute_raire_assertions", "find_best_audit", "manage_node", "perform_dive", "RaireFrontier.insert_node/replace_descendents",
         "NEBAssertion.*", "NENAssertion.*", "vote_for_cand", "ranking", "bp_estimate", "cp_estimate"]

_M = None


def mods():
    """raire.py / raire_utils.py / sample_estimator.py loaded symbolically; leaf predicates wrapped so that their forks are merged"""
    global _M
    if _M is None:
        L = loader.Loader(extra_modules=aud.crypto_stub())
        RU = L.load("shangrla.raire.raire_utils")
        R_ = L.load("shangrla.raire.raire")
        SE = L.load("shangrla.raire.sample_estimator")
        _M = (R_, RU, SE)
    return _M


def cells_for(tier, prop):
    out = []
    cands = ["A", "B", "C"]
    grid = [(3, 2), (3, 3)] if tier == "quick" else [(3, 2), (3, 3), (3, 4)]
    hints = [None, ["C", "B", "A"]] if tier == "quick" else [None] + [list(p) for p in itertools.permutations(cands)]
    for NC, B in grid:
        for winner in cands[:NC]:
            for fn in ("cp_estimate", "bp_estimate"):
                for hint in hints:
                    if hint is not None and B < 3 and tier == "quick":
                        continue
                    out.append(dict(NC=NC, B=B, winner=winner, fn=fn, hint=hint))
    # two consecutive searches in one process on two different symbolic profiles (same contest name, same number of ballots):
    # results must not carry over between calls
    for winner in cands:
        for fn in ("cp_estimate", "bp_estimate"):
            for warm in ([["A", "B", "C"], ["A", "B", "C"], ["B", "A"]], [["C", "B"], ["B"], ["C", "A", "B"]]):
                out.append(dict(NC=3, B=3, winner=winner, fn=fn, hint=None, repeat=warm))
    # the contest's ballot total may exceed the number of CVRs (informal ballots): difficulties are relative to the total
    for B in (2, 3):
        for winner in cands:
            for fn in ("cp_estimate", "bp_estimate"):
                out.append(dict(NC=3, B=B, winner=winner, fn=fn, hint=None, extra=2))
    if prop in ("C04", "C15"):
        # final filtering: an assertion may be dropped only if the one that 'subsumes' it contradicts every order it ruled out
        for t in (2, 3, 4):
            out.append(dict(kind="subsume", tail=t, two=False))
        out.append(dict(kind="subsume", tail=3, two=True))
        out.append(dict(kind="subsume", tail=4, two=True))
    if tier != "quick":
        for winner in ["A", "B"]:
            for fn in ("cp_estimate", "bp_estimate"):
                for hint in (None, ["D", "C", "B", "A"], ["A", "B", "C", "D"]):
                    out.append(dict(NC=4, B=2, winner=winner, fn=fn, hint=hint))
        # four candidates, weighted ballot types and a hint that is neither the natural nor the reversed order
        # (a dive that re-selects the next candidate from the hint; ~15-20 min of one core per cell)
        for winner in ["A", "B"]:
            for fn in ("cp_estimate", "bp_estimate"):
                out.append(dict(NC=4, B=2, winner=winner, fn=fn, hint=["C", "A", "D", "B"], mult=2))
        # ballot types with symbolic multiplicities 1..3 (profiles of up to 9 ballots)
        for winner in cands:
            for fn in ("cp_estimate", "bp_estimate"):
                out.append(dict(NC=3, B=2, winner=winner, fn=fn, hint=None, mult=3))
                out.append(dict(NC=3, B=3, winner=winner, fn=fn, hint=None, mult=3))
    else:
        out.append(dict(NC=3, B=2, winner="A", fn="cp_estimate", hint=None, mult=2))
        out.append(dict(NC=3, B=2, winner="B", fn="bp_estimate", hint=None, mult=2))
    return out


# ---------------------------------------------------------------------------------------------
def universe(cands):
    """every NEB / NEN assertion over the candidates"""
    U = []
    for w, l in itertools.permutations(cands, 2):
        U.append(("NEB", w, l, ()))
        rest = [c for c in cands if c not in (w, l)]
        for r in range(len(rest) + 1):
            for E in itertools.combinations(rest, r):
                U.append(("NEN", w, l, tuple(E)))
    return U


def contradicts(a, pi):
    """does assertion a rule out the complete elimination order pi (first eliminated first, winner last)?"""
    kind, w, l, E = a
    pos = {c: i for i, c in enumerate(pi)}
    if kind == "NEB":           # w cannot be eliminated before l
        return pos[w] < pos[l]
    for r in range(len(pi)):
        if set(pi[:r]) == set(E):
            return pi[r] == w   # w cannot be the next eliminated when exactly E are gone
    return False


def tallies_z3(a, idxs, cands, wts=None):
    """oracle tallies (winner, loser) of assertion a over the symbolic ballots (with multiplicities), as z3 Ints"""
    kind, w, l, E = a
    wts = wts or [z3.IntVal(1)] * len(idxs)
    if kind == "NEB":
        tw = z3.Sum([z3.If(ix[w] == 0, n, 0) for ix, n in zip(idxs, wts)])
        tl = z3.Sum([z3.If(z3.And(ix[l] >= 0, z3.Or(ix[w] < 0, ix[l] < ix[w])), n, 0) for ix, n in zip(idxs, wts)])
        return tw, tl

    def first(x):
        return z3.Sum([z3.If(z3.And(ix[x] >= 0, *[z3.Or(ix[y] < 0, ix[y] > ix[x]) for y in cands if y != x and y not in E]), n, 0)
                       for ix, n in zip(idxs, wts)])
    return first(w), first(l)


def key_of(asrtn, RU):
    if type(asrtn).__name__ == "NEBAssertion":
        return ("NEB", asrtn.winner, asrtn.loser, ())
    return ("NEN", asrtn.winner, asrtn.loser, tuple(asrtn.eliminated))


def _subsume(cell, want):
    """NEBAssertion.subsumes(NEN): symbolic candidates (4), a symbolic tail of the given length"""
    from .c20 import SymCand
    stats = core.Stats()
    ex = core.Explorer(stats=stats)
    findings, samples = [], []
    st = {'reach': 0}
    R_, RU, SE = mods()
    NCs, t = 4, cell["tail"]

    class Elim:
        """the eliminated candidates = those not in the tail (symbolic membership)"""
        def __init__(self, tail):
            self.tail = tail

        def __contains__(self, x):
            return bool(SB(z3.And(*[x.e != y.e for y in self.tail])))

    def harness(ex):
        w, l = z3.Int("w"), z3.Int("l")
        tl = [z3.Int(f"t{i}") for i in range(t)]
        lp = z3.Int("nen_loser_pos")
        for v in [w, l] + tl:
            ex.assume(z3.And(v >= 0, v < NCs))
        ex.assume(w != l)
        if t > 1:
            ex.assume(z3.Distinct(*tl))
        ex.assume(z3.And(lp >= 1, lp < t))
        tail = [SymCand(x) for x in tl]
        tails = [tuple(tail)]
        if cell["two"]:
            tails.append(tuple([tail[0]] + tail[2:] + [tail[1]]))
        neb = RU.NEBAssertion("c", SymCand(w), SymCand(l))
        lose = tail[1]
        for i in range(2, t):
            pass
        nen = RU.NENAssertion("c", tail[0], tail[core.concretize_int(SV(lp))], Elim(tail))
        nen.rules_out = list(tails)
        inputs = lambda m: dict(neb=dict(winner=model_value(m, w), loser=model_value(m, l)), tails=[[model_value(m, x.e) for x in T] for T in tails])
        try:
            res = neb.subsumes(nen)
        except core.PathAbort:
            raise
        except Exception as e:      # noqa
            r, m = ex.witness()
            if r == 'sat':
                findings.append(dict(clause="exception", cell=cell, inputs=inputs(m), observed=repr(e)))
            return
        st['reach'] += 1
        res = bool(res)

        def pos(x, T):
            r = z3.IntVal(-1)
            for i in range(len(T) - 1, -1, -1):
                r = z3.If(x == T[i].e, i, r)
            return r
        covers = z3.And(*[z3.Or(z3.And(pos(w, T) >= 0, pos(l, T) >= 0, pos(w, T) < pos(l, T)), z3.And(pos(w, T) == -1, pos(l, T) >= 0)) for T in tails])
        if res:
            r, m = ex.prove(covers)
            if r == 'sat':
                findings.append(dict(clause="an NEB assertion 'subsumes' an NEN assertion only if it contradicts every elimination order the NEN rules out",
                                     cell=cell, inputs=inputs(m)))
        else:
            ex.stats.obligations += 1
            ex.stats.discharged += 1
        if not samples and res:
            r, m = ex.witness(timeout_ms=2000)
            if r == 'sat':
                samples.append(dict(cell=f"subsumes, tail length {t}", subsumes=res, reachable_with=inputs(m)))
    ex.run(harness)
    notes, out = [], []
    for fd in findings[:1]:          # one confirmation search per cell is enough
        from symx.run import _jsonable
        import json as _json
        fj = _json.loads(_json.dumps(_jsonable(fd)))
        rp = _subsume_replay(fj, want=want)
        if rp["reproduced"]:
            fd["replay"] = rp
            out.append(fd)
        else:
            notes.append(f"unconfirmed lemma failure (subsumption): {fj['inputs']}: {rp['detail']}")
    return dict(stats=stats.as_dict(), findings=out, samples=samples, notes=notes, vacuous=(st['reach'] == 0 and not findings))


def _subsume_replay(f, budget=6000, want=('C04',)):
    """a failing subsumption lemma is not itself a violation of C04: confirm it by a seeded search over random profiles on the real
    search code, looking for a returned set that leaves an alternative elimination order uncontradicted"""
    import random
    import io
    R_ = loader.real_module("shangrla.raire.raire")
    RU = loader.real_module("shangrla.raire.raire_utils")
    SE = loader.real_module("shangrla.raire.sample_estimator")
    inp = f["inputs"]
    w, l = str(inp["neb"]["winner"]), str(inp["neb"]["loser"])
    tails = [tuple(str(x) for x in T) for T in inp["tails"]]
    cands4 = [str(i) for i in range(4)]
    neb = RU.NEBAssertion("c", w, l)
    nen = RU.NENAssertion("c", tails[0][0], tails[0][1], [c for c in cands4 if c not in tails[0]])
    nen.rules_out = set(tails)
    try:
        res = neb.subsumes(nen)
    except Exception as e:      # noqa
        return dict(reproduced=True, detail=f"raised {e!r}")
    lemma_fails = False
    if res:
        for T in tails:
            rest = [c for c in cands4 if c not in T]
            for pre in itertools.permutations(rest):
                pi = list(pre) + list(T)
                if not pi.index(w) < pi.index(l):
                    lemma_fails = True
    if not lemma_fails:
        return dict(reproduced=False, detail="subsumption lemma holds on the real code")
    rnd = random.Random(20261003)
    for trial in range(budget):
        nc = rnd.choice((4, 5))
        cands = [chr(65 + i) for i in range(nc)]
        ballots = []
        for _ in range(rnd.randint(4, 8)):
            k = rnd.randint(1, nc)
            rk = rnd.sample(cands, k)
            ballots += [rk] * rnd.randint(1, 25)
        # reported winner = IRV winner of the profile
        standing = list(cands)
        while len(standing) > 1:
            tal = {c: sum(1 for b in ballots if next((x for x in b if x in standing), None) == c) for c in standing}
            standing.remove(min(standing, key=lambda c: (tal[c], c)))
        winner = standing[0]
        cvrs = {i: {"c": {c: j for j, c in enumerate(b)}} for i, b in enumerate(ballots)}
        for fn in (SE.cp_estimate, SE.bp_estimate):
            try:
                out = R_.compute_raire_assertions(RU.Contest("c", cands, winner, len(ballots), order=[]), cvrs, winner, fn, False, agap=0)
            except Exception as e:      # noqa
                return dict(reproduced=True, detail=f"compute_raire_assertions raised {e!r} on profile {_compress(ballots)} (winner {winner})")
            if not out:
                continue
            ret = [key_of(a, RU) for a in out]
            if "C04" in want:
                for pi in itertools.permutations(cands):
                    if pi[-1] != winner and not any(contradicts(k, pi) for k in ret):
                        return dict(reproduced=True, detail=f"profile {_compress(ballots)}, reported winner {winner}, {fn.__name__}: elimination order "
                                                            f"{''.join(pi)} is not excluded by the returned assertions {ret} (trial {trial})")
            if "C15" in want:
                D = max(float(a.difficulty) for a in out)
                mm = _minmax(ballots, cands, winner, fn)
                if mm is not None and abs(D - mm) > 1e-9 * max(1.0, abs(mm)):
                    return dict(reproduced=True, detail=f"profile {_compress(ballots)}, reported winner {winner}, {fn.__name__}: largest returned difficulty "
                                                        f"{D} but the least possible largest difficulty of a sufficient set of true assertions is {mm} (trial {trial})")
    return dict(reproduced=False, detail=f"subsumption lemma fails on the real code but no uncovered elimination order was found in {budget} random profiles")


def _minmax(ballots, cands, winner, fn):
    """brute force: the least D such that the true assertions of difficulty <= D exclude every alternative winner"""
    B = len(ballots)

    def tally(a):
        kind, w, l, E = a
        if kind == "NEB":
            return (sum(1 for rk in ballots if rk[:1] == [w]), sum(1 for rk in ballots if l in rk and (w not in rk or rk.index(l) < rk.index(w))))
        first = lambda x: sum(1 for rk in ballots if next((y for y in rk if y not in E), None) == x)
        return first(w), first(l)
    items = []
    for a in universe(cands):
        tw, tl = tally(a)
        if tw > tl:
            items.append((float(fn(tw, tl, B - tw - tl, B)), a))
    items.sort(key=lambda t: t[0])
    orders = [pi for pi in itertools.permutations(cands) if pi[-1] != winner]
    left = set(range(len(orders)))
    for d, a in items:
        left = {i for i in left if not contradicts(a, orders[i])}
        if not left:
            return d
    return None


def _compress(ballots):
    from collections import Counter
    return [(list(k), v) for k, v in Counter(tuple(b) for b in ballots).items()]


def run_cell(cell, want):
    """want: set of clause families to check: 'C04', 'C15'"""
    if cell.get("kind") == "subsume":
        return _subsume(cell, want)
    stats = core.Stats()
    ex = core.Explorer(stats=stats)
    findings, samples = [], []
    st = {'reach': 0, 'empty': 0, 'nonempty': 0}
    R_, RU, SE = mods()
    NC, B = cell["NC"], cell["B"]
    cands = ["A", "B", "C", "D"][:NC]
    winner = cell["winner"]
    real_fn = getattr(SE, cell["fn"])
    U = universe(cands)
    orders = [pi for pi in itertools.permutations(cands) if pi[-1] != winner]

    gcache = {}          # leaf-predicate summaries, computed once under the ballot preconditions and reused on every path

    def harness(ex):
        profiles = []
        bid = {}
        if cell.get("repeat"):
            # first call: a fixed concrete profile (same contest name, same number of ballots)
            warm_cvrs = {f"b{b}": {"c": {c: i for i, c in enumerate(rk)}} for b, rk in enumerate(cell["repeat"])}
            profiles.append((None, warm_cvrs))
        for pno in range(1):
            idxs_ = [ballot_vars(ex, cands, tag=f"p{pno}b{b}") for b in range(B)]
            # ballots are interchangeable: order them (symmetry breaking on a numeric key of the ranking)
            keys = [z3.Sum([(ix[c] + 1) * (NC + 1) ** i for i, c in enumerate(cands)]) for ix in idxs_]
            for k1, k2 in zip(keys, keys[1:]):
                ex.assume(k1 <= k2)
            cvrs_ = {f"b{b}": {"c": SymBallot(idxs_[b])} for b in range(B)}
            for b in range(B):
                bid[id(cvrs_[f"b{b}"])] = ("cvr", pno, b)
                bid[id(cvrs_[f"b{b}"]["c"])] = ("ballot", pno, b)
            profiles.append((idxs_, cvrs_))
        # optional multiplicities: ballot b stands for wts[b] identical ballots (the search only ever sums leaf predicates over the CVRs)
        M = cell.get("mult", 1)
        wts = [z3.Int(f"count{b}") for b in range(B)] if M > 1 else [z3.IntVal(1)] * B
        for wv in (wts if M > 1 else []):
            ex.assume(z3.And(wv >= 1, wv <= M))
        wt_of = {}
        for (idxs_, cvrs_) in profiles:
            if idxs_ is None:
                continue
            for b in range(B):
                wt_of[id(cvrs_[f"b{b}"])] = wts[b]
                wt_of[id(cvrs_[f"b{b}"]["c"])] = wts[b]
        base0 = list(ex.pc)          # only the preconditions on the ballots have been assumed so far

        def memo(fn, name):
            def w(*a):
                key = (name,) + tuple(bid.get(id(x), id(x)) if isinstance(x, dict) else (tuple(x) if isinstance(x, list) else x) for x in a)
                if key not in gcache:
                    gcache[key] = merge.merged_call(fn, *a, _base=base0)
                v = gcache[key]
                if M > 1:
                    for x in a:
                        if isinstance(x, dict) and id(x) in wt_of:
                            return SV(wt_of[id(x)]) * v
                return v
            return w
        # merge the forks inside the leaf predicates (harness-side wrapping of the real functions; restored afterwards)
        orig = (RU.vote_for_cand, RU.NEBAssertion.is_vote_for_winner, RU.NEBAssertion.is_vote_for_loser)
        vfc = memo(orig[0], "vfc")
        RU.vote_for_cand = vfc
        _w, _l = orig[1], orig[2]
        nw = memo(lambda w_, l_, c_: _w(types.SimpleNamespace(contest="c", winner=w_, loser=l_), c_), "nw")
        nl = memo(lambda w_, l_, c_: _l(types.SimpleNamespace(contest="c", winner=w_, loser=l_), c_), "nl")
        RU.NEBAssertion.is_vote_for_winner = lambda self, cvr: nw(self.winner, self.loser, cvr)
        RU.NEBAssertion.is_vote_for_loser = lambda self, cvr: nl(self.winner, self.loser, cvr)

        EXTRA = cell.get("extra", 0)      # ballots of the contest that carry no ranking (informal): counted in the total only
        total_sv = SV(z3.Sum(wts)) if M > 1 else B + EXTRA

        def asn_func(tw, tl, other, total):
            # tallies are concretised by forks (a handful of feasible values each); the shipped difficulty function then runs concretely
            tw = concretize_int(tw) if isinstance(tw, SV) else tw
            tl = concretize_int(tl) if isinstance(tl, SV) else tl
            total = concretize_int(total) if isinstance(total, SV) else total
            return real_fn(tw, tl, total - tw - tl, total)

        def rank_of(m, ixs):
            return [[c for _, c in sorted((model_value(m, v), c) for c, v in ix.items() if model_value(m, v) >= 0)] for ix in ixs]

        def inputs(m):
            d = dict(ballots=rank_of(m, profiles[-1][0]))
            if M > 1:
                d["counts"] = [model_value(m, wv) for wv in wts]
            if cell.get("repeat"):
                d["previous_call_ballots"] = cell["repeat"]
            return d
        con = RU.Contest("c", list(cands), winner, total_sv, order=list(cell["hint"]) if cell["hint"] else [])
        try:
            for idxs, cvrs in profiles:
                res = R_.compute_raire_assertions(con, cvrs, winner, asn_func, False, agap=0)
        except core.PathAbort:
            raise
        except Exception as e:      # noqa
            r, m = ex.witness()
            if r == 'sat':
                findings.append(dict(clause="exception", cell=cell, inputs=inputs(m), observed=repr(e)))
            elif r != 'unsat':
                ex.stats.inconclusive += 1
            return
        finally:
            RU.vote_for_cand, RU.NEBAssertion.is_vote_for_winner, RU.NEBAssertion.is_vote_for_loser = orig
        st['reach'] += 1
        tz = {a: tallies_z3(a, idxs, cands, wts) for a in U}
        true_ = {a: tz[a][0] > tz[a][1] for a in U}
        claims = []
        if res:
            st['nonempty'] += 1
            ret = [key_of(a, RU) for a in res]
            if "C04" in want:
                for a, k in zip(res, ret):
                    vw = a.votes_for_winner
                    vl = a.votes_for_loser
                    vwz = vw.e if isinstance(vw, SV) else z3.IntVal(int(vw))
                    vlz = vl.e if isinstance(vl, SV) else z3.IntVal(int(vl))
                    claims.append((f"{k}: reported winner tally is the tally on the CVRs", vwz == tz[k][0]))
                    claims.append((f"{k}: reported loser tally is the tally on the CVRs", vlz == tz[k][1]))
                    claims.append((f"{k}: winner tally strictly larger", vwz > vlz))
                    # re-application through the assertion's own predicates (C14, third clause)
                    try:
                        rw = sum((SV(wts[b]) * a.is_vote_for_winner(cvrs[f"b{b}"])) if M > 1 else a.is_vote_for_winner(cvrs[f"b{b}"]) for b in range(B))
                        rl = sum((SV(wts[b]) * a.is_vote_for_loser(cvrs[f"b{b}"])) if M > 1 else a.is_vote_for_loser(cvrs[f"b{b}"]) for b in range(B))
                        rwz = rw.e if isinstance(rw, SV) else z3.IntVal(int(rw))
                        rlz = rl.e if isinstance(rl, SV) else z3.IntVal(int(rl))
                        claims.append((f"{k}: re-applied to the CVRs the assertion reproduces its reported tallies", z3.And(rwz == vwz, rlz == vlz)))
                    except core.PathAbort:
                        raise
                    except Exception as e:      # noqa
                        claims.append((f"{k}: re-application raised {e!r}", False))
                for pi in orders:
                    claims.append((f"elimination order {''.join(pi)} is contradicted by a returned assertion", any(contradicts(k, pi) for k in ret)))
            if "C15" in want:
                for pi in orders:
                    claims.append((f"the returned set is itself sufficient (order {''.join(pi)} contradicted)", any(contradicts(k, pi) for k in ret)))
                diffs = [a.difficulty for a in res]
                D = max(float(d) for d in diffs)
                # table of (winner tally, loser tally) pairs whose difficulty is strictly below D (the shipped function as a black box)
                easier = {}
                Tot = B + EXTRA if M == 1 else concretize_int(total_sv)
                # the difficulty an assertion carries is the shipped function of its own tallies and the contest's ballot total
                for a, k in zip(res, ret):
                    vw = concretize_int(a.votes_for_winner) if isinstance(a.votes_for_winner, SV) else int(a.votes_for_winner)
                    vl = concretize_int(a.votes_for_loser) if isinstance(a.votes_for_loser, SV) else int(a.votes_for_loser)
                    td = float(real_fn(vw, vl, Tot - vw - vl, Tot))
                    claims.append((f"{k}: the difficulty it carries is the difficulty function of its tallies and the ballot total",
                                   abs(float(a.difficulty) - td) <= 1e-9 * max(1.0, abs(td))))
                for tw in range(Tot + 1):
                    for tl in range(Tot + 1 - tw):
                        if tw > tl:
                            easier[(tw, tl)] = float(real_fn(tw, tl, Tot - tw - tl, Tot)) < D - 1e-12
                def usable(a):
                    tw, tl = tz[a]
                    return z3.Or(*[z3.And(tw == x, tl == y) for (x, y), ok in easier.items() if ok]) if any(easier.values()) else z3.BoolVal(False)
                # no set of true assertions all strictly easier than D excludes every alternative winner
                claims.append(("no sufficient set of true assertions has a smaller largest difficulty",
                               z3.Or(*[z3.And(*[z3.Not(usable(a)) for a in U if contradicts(a, pi)]) for pi in orders])))
        else:
            st['empty'] += 1
            if "C04" in want:
                claims.append(("empty result only when no set of true assertions excludes every alternative winner",
                               z3.Or(*[z3.And(*[z3.Not(true_[a]) for a in U if contradicts(a, pi)]) for pi in orders])))
        for name, cl in claims:
            if isinstance(cl, bool):
                ex.stats.obligations += 1
                if cl:
                    ex.stats.discharged += 1
                else:
                    r, m = ex.witness()
                    if r == 'sat':
                        ex.stats.sat += 1
                        findings.append(dict(clause=name, cell=cell, inputs=inputs(m)))
                continue
            r, m = ex.prove(cl)
            if r == 'sat':
                findings.append(dict(clause=name, cell=cell, inputs=inputs(m)))
        if len(samples) < 2 and (res or st['empty'] == 1):
            r, m = ex.witness(timeout_ms=2000)
            if r == 'sat':
                samples.append(dict(cell=f"{NC} candidates, {B} ballots, reported winner {winner}, {cell['fn']}, hint {cell['hint']}",
                                    returned=[str(key_of(a, RU)) for a in res], reachable_with=inputs(m)))
    ex.run(harness)
    seen, out = set(), []
    for f in findings:
        key = f["clause"].split(":")[-1][:60]
        if key in seen and len(out) > 4:
            continue
        seen.add(key)
        out.append(f)
    d = stats.as_dict()
    d['paths_empty'] = st['empty']
    d['paths_nonempty'] = st['nonempty']
    return dict(stats=d, findings=out, samples=samples, vacuous=(st['reach'] == 0 and not findings))


# ---------------------------------------------------------------------------------------------
def replay(f, want):
    cell, inp = f["cell"], f["inputs"]
    if cell.get("kind") == "subsume":
        return _subsume_replay(f, want=want)
    R_ = loader.real_module("shangrla.raire.raire")
    RU = loader.real_module("shangrla.raire.raire_utils")
    SE = loader.real_module("shangrla.raire.sample_estimator")
    NC, B, winner = cell["NC"], cell["B"], cell["winner"]
    cands = ["A", "B", "C", "D"][:NC]
    fn = getattr(SE, cell["fn"])
    ballots = inp["ballots"]
    if inp.get("counts"):
        ballots = [rk for rk, n in zip(ballots, inp["counts"]) for _ in range(int(n))]
    B = len(ballots)
    cvrs = {f"b{b}": {"c": {c: i for i, c in enumerate(rk)}} for b, rk in enumerate(ballots)}
    U = universe(cands)
    orders = [pi for pi in itertools.permutations(cands) if pi[-1] != winner]

    def tally(a):
        kind, w, l, E = a
        if kind == "NEB":
            tw = sum(1 for rk in ballots if rk[:1] == [w])
            tl = sum(1 for rk in ballots if l in rk and (w not in rk or rk.index(l) < rk.index(w)))
            return tw, tl

        def first(x):
            return sum(1 for rk in ballots if x in rk and all((y not in rk) or rk.index(y) > rk.index(x) for y in cands if y != x and y not in E))
        return first(w), first(l)
    bad = []
    try:
        # a call on a different profile first: results must not carry over between calls
        TOT = B + cell.get("extra", 0)
        con = RU.Contest("c", list(cands), winner, TOT, order=list(cell["hint"]) if cell["hint"] else [])
        if inp.get("previous_call_ballots"):
            # the same contest description is used for both calls, as in the symbolic run
            warm = {f"w{b}": {"c": {c: i for i, c in enumerate(rk)}} for b, rk in enumerate(inp["previous_call_ballots"])}
            R_.compute_raire_assertions(con, warm, winner, fn, False, agap=0)
        else:
            warm = {f"w{b}": {"c": {c: i for i, c in enumerate(reversed(cands))}} for b in range(B)}
            R_.compute_raire_assertions(RU.Contest("c", list(cands), cands[0], B, order=[]), warm, cands[0], fn, False, agap=0)
        res = R_.compute_raire_assertions(con, cvrs, winner, fn, False, agap=0)
    except Exception as e:      # noqa
        return dict(reproduced=True, detail=f"compute_raire_assertions raised {e!r} on ballots {ballots}")
    true_set = [a for a in U if tally(a)[0] > tally(a)[1]]
    if res:
        ret = [key_of(a, RU) for a in res]
        if "C04" in want:
            for a, k in zip(res, ret):
                if (a.votes_for_winner, a.votes_for_loser) != tally(k) or not a.votes_for_winner > a.votes_for_loser:
                    bad.append(f"{k}: reported tallies ({a.votes_for_winner}, {a.votes_for_loser}), on the CVRs {tally(k)}")
                rw = sum(a.is_vote_for_winner(c) for c in cvrs.values())
                rl = sum(a.is_vote_for_loser(c) for c in cvrs.values())
                if (rw, rl) != (a.votes_for_winner, a.votes_for_loser):
                    bad.append(f"{k}: re-applied tallies ({rw}, {rl}) differ from reported ({a.votes_for_winner}, {a.votes_for_loser})")
            for pi in orders:
                if not any(contradicts(k, pi) for k in ret):
                    bad.append(f"elimination order {''.join(pi)} is not excluded by {ret}")
        if "C15" in want:
            if "C04" not in want:      # the least-difficult set must itself be sufficient
                for pi in orders:
                    if not any(contradicts(k, pi) for k in ret):
                        bad.append(f"elimination order {''.join(pi)} is not excluded by {ret}")
            D = max(float(a.difficulty) for a in res)
            for a, k in zip(res, ret):
                td = float(fn(tally(k)[0], tally(k)[1], TOT - sum(tally(k)), TOT))
                if abs(float(a.difficulty) - td) > 1e-9 * max(1.0, abs(td)):
                    bad.append(f"{k}: carries difficulty {float(a.difficulty)} but the difficulty function gives {td} for tallies {tally(k)} of {TOT} ballots")
            diff = lambda a: float(fn(tally(a)[0], tally(a)[1], TOT - sum(tally(a)), TOT))
            easier = [a for a in true_set if diff(a) < D - 1e-12]
            if all(any(contradicts(a, pi) for a in easier) for pi in orders):
                bad.append(f"returned largest difficulty {D}, but the true assertions strictly easier than that already exclude every alternative winner")
    else:
        if "C04" in want and all(any(contradicts(a, pi) for a in true_set) for pi in orders):
            bad.append(f"empty result although the true assertions {true_set} exclude every alternative winner")
    return dict(reproduced=bool(bad), detail="; ".join(bad[:3]) or "held")
