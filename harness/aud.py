"""Shared machinery for the properties anchored in shangrla/core/Audit.py: symbolic loading, symbolic CVRs."""
import types
import warnings

import z3

from symx import core, loader, npmodel
from symx.core import SB, SV

warnings.simplefilter("ignore")
FILES = ["shangrla/core/Audit.py", "shangrla/core/NonnegMean.py"]


def crypto_stub():
    m1 = types.ModuleType("cryptorandom.cryptorandom")
    m1.int_from_hash = lambda x: x          # SHA-256 output -> integer: identity on the (symbolic) PRNG output
    m2 = types.ModuleType("cryptorandom.sample")
    m2.random_permutation = lambda *a, **k: (_ for _ in ()).throw(NotImplementedError("random_permutation"))
    m2.sample_by_index = lambda *a, **k: (_ for _ in ()).throw(NotImplementedError("sample_by_index"))
    return {"cryptorandom.cryptorandom": m1, "cryptorandom.sample": m2}


_L = None


def sym_audit(fresh=False):
    """the real Audit.py (and NonnegMean.py) loaded against the models; one load per process unless fresh"""
    global _L
    if _L is None or fresh:
        L = loader.Loader(extra_modules=crypto_stub())
        if fresh:
            return L.load("shangrla.core.Audit")
        _L = L
    return _L.load("shangrla.core.Audit")


def real_audit():
    return loader.real_module("shangrla.core.Audit")


class PresDict(dict):
    """dict whose keys are present under symbolic conditions (`k in d` forks; values are ordinary objects)"""

    def __init__(self, pres, inner=None):
        super().__init__()
        self.pres = dict(pres)              # key -> z3 Bool / python bool
        self.inner = dict(inner or {})      # key -> value

    def _has(self, k):
        if k not in self.pres:
            return False
        c = self.pres[k]
        return c if isinstance(c, bool) else bool(SB(c))

    def __contains__(self, k):
        return self._has(k)

    def __getitem__(self, k):
        if not self._has(k):
            raise KeyError(k)
        return self.inner.get(k)

    def get(self, k, default=None):
        return self.inner.get(k) if self._has(k) else default

    def __setitem__(self, k, v):
        self.pres[k] = True
        self.inner[k] = v

    def keys(self):
        return [k for k in self.pres if self._has(k)]

    def __iter__(self):
        return iter(self.keys())

    def items(self):
        return [(k, self.inner.get(k)) for k in self.keys()]

    def values(self):
        return [self.inner.get(k) for k in self.keys()]

    def __len__(self):
        return len(self.keys())

    def __bool__(self):
        return len(self.keys()) > 0

    def update(self, other):
        for k, v in (other.items() if hasattr(other, 'items') else other):
            self[k] = v

    def copy(self):
        return PresDict(self.pres, self.inner)

    def __repr__(self):
        return f"PresDict({list(self.pres)})"


class Poison(dict):
    """contest contents that must never be read (selection may depend on records only through which contests they list)"""

    def _boom(self, *a, **k):
        raise AssertionError("vote contents were read")
    __getitem__ = __contains__ = get = keys = items = values = __iter__ = __len__ = _boom


# ---------------------------------------------------------------------------------------------
# symbolic cards: which contests are listed, which candidate keys are present, and the marks
class Card:
    """bits of one symbolic record"""

    def __init__(self, tag, i, contest, cands, kind, ex, style_bit=True, allow_missing_keys=True):
        self.lists = z3.Bool(f"{tag}{i}_lists") if style_bit else z3.BoolVal(True)
        self.key = {c: (z3.Bool(f"{tag}{i}_key_{c}") if allow_missing_keys else z3.BoolVal(True)) for c in cands}
        self.val = {}
        self.truthy = {}
        inner = {}
        for c in cands:
            if kind == "bool":
                b = z3.Bool(f"{tag}{i}_mark_{c}")
                inner[c] = SB(b)
                self.truthy[c] = b
            elif kind == "int":
                v = z3.Int(f"{tag}{i}_mark_{c}")
                ex.assume(v >= 0)
                inner[c] = SV(v)
                self.truthy[c] = v != 0
            else:       # literal encodings "", "marked" chosen by a fork on the truthiness bit
                b = z3.Bool(f"{tag}{i}_mark_{c}")
                inner[c] = "marked" if bool(SB(b)) else ""
                self.truthy[c] = b
            self.val[c] = inner[c]
        self.contest = contest
        self.votes = PresDict({contest: self.lists}, {contest: PresDict(self.key, inner)})

    def vote(self, c):
        """z3 Bool: the card shows a (truthy) mark for candidate c in the contest"""
        return z3.And(self.lists, self.key[c], self.truthy[c])

    def concrete(self, m, cands):
        """plain votes dict of this card in model m"""
        from symx.core import model_value
        if not bool(model_value(m, self.lists)):
            return {}
        d = {}
        for c in cands:
            if bool(model_value(m, self.key[c])):
                v = self.val[c]
                if isinstance(v, SB):
                    d[c] = bool(model_value(m, v.e))
                elif isinstance(v, SV):
                    d[c] = int(model_value(m, v.e))
                else:
                    d[c] = v
        return {self.contest: d}
