"""C19 - Dominion import reflects counted marks, adjudication and grouping faithfully."""
import itertools
import types
from fractions import Fraction as F

import z3

from symx import core, loader
from symx.core import SB, SV, model_value
from . import aud

PROPERTY = "C19"
META = dict(
    files=["shangrla/formats/Dominion.py"],
    functions=["Dominion.read_cvrs", "Dominion.read_cvrs_directory"],
    explanation="read_cvrs runs on a harness-supplied document (open / json.load / glob are stubs returning it): per mark IsVote (Bool) and Rank "
                "(Int >= 0) are symbolic; candidate patterns, layouts (with and without the Cards level), the key order of Original/Modified, "
                "use_current, enforce_rules, counting groups and include/pool options come from a grid. Per path the imported records are "
                "compared with the specification: one record per included session in order, id / tally pool strings, pooled iff its group is a "
                "pool group, per contest and candidate the smallest positive rank among counted marks (symbolic, hence for every order of "
                "marks), Modified replacing Original contest by contest for either key order.",
    bounds={"quick": {"sessions": 2, "contests per session": 2, "marks per contest": 3, "candidates": 2},
            "thorough": {"sessions": 2, "contests per session": 2, "marks per contest": 4, "candidates": 2}},
    outside=["real JSON parsing", "the obfuscated-id regular expression on symbolic strings (concrete image masks only)", "negative ranks"],
    assumptions=["Rank >= 0", "a candidate's recorded value is 0 when none of its counted marks has a positive rank"],
    trusted=["symx builtins model (int/bool/min shadows)"],
)


def load_dominion(doc_holder, files):
    import json as _json
    js = types.ModuleType("json")
    js.__dict__.update({k: v for k, v in vars(_json).items() if not k.startswith("__")})
    js.load = lambda f: doc_holder[f.name]
    gl = types.ModuleType("glob")
    gl.glob = lambda pattern: list(files)

    class _F:
        def __init__(self, name):
            self.name = name

        def __enter__(self):
            return self

        def __exit__(self, *a):
            return False
    L = loader.Loader(extra_modules=dict(aud.crypto_stub(), json=js, glob=gl, pandas=types.ModuleType("pandas")),
                      extra_globals={"open": lambda name, *a, **k: _F(name)})
    return L.load("shangrla.formats.Dominion").Dominion


PATTERNS = {3: [(1, 1, 1), (1, 1, 2), (1, 2, 1), (2, 1, 1)], 4: [(1, 1, 1, 1), (1, 2, 1, 2), (1, 1, 2, 1)]}


def cells(tier):
    out = []
    nm = 3 if tier == "quick" else 4
    for layout in ("flat", "cards"):
        for keys in (["Original"], ["Original", "Modified"], ["Modified", "Original"]):
            for use_current in (True, False):
                for enforce in (True, False):
                    for pat in PATTERNS[nm]:
                        # the contests of a session are imported independently: one contest block is symbolic per cell, the others concrete
                        for focus in ([["Original", 10], ["Original", 11]] + ([["Modified", 11]] if "Modified" in keys else [])):
                            out.append(dict(kind="marks", layout=layout, keys=keys, use_current=use_current, enforce=enforce, pattern=list(pat), focus=focus))
    for include, pool in (([], []), ([2], []), ([], [2]), ([1, 2], [1]), ([2], [2])):
        out.append(dict(kind="sessions", include=include, pool=pool))
    return out


def contest_block(tag, pattern, cid, symbolic=True):
    marks, bits = [], []
    for j, cand in enumerate(pattern):
        if symbolic:
            iv, rk = z3.Bool(f"{tag}_isvote{j}"), z3.Int(f"{tag}_rank{j}")
            marks.append({"CandidateId": cand, "IsVote": SB(iv), "Rank": SV(rk)})
        else:       # fixed marks: counted, ranks j+1 (distinct per block so that the source of a contest stays visible)
            iv, rk = z3.BoolVal(True), z3.IntVal(j + 1 + (5 if tag.startswith("M") else 0))
            marks.append({"CandidateId": cand, "IsVote": True, "Rank": j + 1 + (5 if tag.startswith("M") else 0)})
        bits.append((cand, iv, rk))
    return {"Id": cid, "Marks": marks}, bits


def spec_value(bits, cand, enforce):
    """(present, value) z3: smallest positive rank among the candidate's counted marks, 0 if none is positive"""
    mine = [(iv, rk) for c, iv, rk in bits if c == cand]
    counted = [(iv if enforce else z3.BoolVal(True)) for iv, rk in mine]
    present = z3.Or(*counted) if counted else z3.BoolVal(False)
    val = z3.IntVal(0)
    # fold: min over positive counted ranks
    best = None
    for cnt, (iv, rk) in zip(counted, mine):
        ok = z3.And(cnt, rk > 0)
        if best is None:
            best = (ok, rk)
        else:
            bo, br = best
            best = (z3.Or(bo, ok), z3.If(z3.And(ok, z3.Or(z3.Not(bo), rk < br)), rk, br))
    if best is not None:
        val = z3.If(best[0], best[1], 0)
    return present, val


def wrap(layout, contests):
    return {"Cards": [{"Contests": contests[:1]}, {"Contests": contests[1:]}]} if layout == "cards" else {"Contests": contests}


def _marks(cell, stats):
    ex = core.Explorer(stats=stats)
    findings, samples = [], []
    st = {'reach': 0}
    holder = {}
    Dom = load_dominion(holder, ["f1"])

    def harness(ex):
        allbits = {}
        session = {"TabulatorId": 7, "BatchId": 3, "RecordId": 12, "CountingGroupId": 2, "ImageMask": "x"}
        for key in cell["keys"]:
            blocks = []
            cids = [10, 11] if key == "Original" else [11]         # the adjudication covers contest 11 only
            for cid in cids:
                blk, bits = contest_block(f"{key[0]}{cid}", cell["pattern"], cid, symbolic=([key, cid] == cell["focus"]))
                for c, iv, rk in bits:
                    ex.assume(rk >= 0)
                allbits[(key, cid)] = bits
                blocks.append(blk)
            if key == "Original":
                session[key] = wrap(cell["layout"], blocks)
            else:
                session[key] = wrap("flat", blocks)
        holder["f1"] = {"Sessions": [session]}

        def inputs(m):
            return {f"{k}.{cid}": [(c, bool(model_value(m, iv)), model_value(m, rk)) for c, iv, rk in bits] for (k, cid), bits in allbits.items()}
        try:
            out = Dom.read_cvrs("f1", use_current=cell["use_current"], enforce_rules=cell["enforce"])
        except core.PathAbort:
            raise
        except Exception as e:      # noqa
            r, m = ex.witness()
            if r == 'sat':
                findings.append(dict(clause="exception", cell=cell, inputs=inputs(m), observed=repr(e)))
            elif r != 'unsat':
                ex.stats.inconclusive += 1
            return
        st['reach'] += 1
        claims = [("one record per session", len(out) == 1)]
        if len(out) == 1:
            rec = out[0]
            claims.append(("identifier and tally pool derived from tabulator, batch and record number", rec.id == "7-3-12" and rec.tally_pool == "7-3"))
            votes = rec.votes
            src = {10: "Original", 11: ("Modified" if (cell["use_current"] and "Modified" in cell["keys"]) else "Original")}
            claims.append(("contests of the record", sorted(votes.keys()) == ["10", "11"]))
            for cid in (10, 11):
                bits = allbits[(src[cid], cid)]
                got = votes.get(str(cid), {})
                for cand in (1, 2):
                    present, val = spec_value(bits, cand, cell["enforce"])
                    if str(cand) in got:
                        g = got[str(cand)]
                        gz = g.e if isinstance(g, SV) else z3.IntVal(int(g))
                        claims.append((f"contest {cid} candidate {cand}: value is the smallest positive rank among counted marks ({src[cid]} data)",
                                       z3.And(present, gz == val)))
                    else:
                        claims.append((f"contest {cid} candidate {cand}: absent only if it has no counted mark", z3.Not(present)))
        for name, cl in claims:
            if isinstance(cl, bool):
                ex.stats.obligations += 1
                if cl:
                    ex.stats.discharged += 1
                else:
                    r, m = ex.witness()
                    if r == 'sat':
                        ex.stats.sat += 1
                        findings.append(dict(clause=name, cell=cell, inputs=inputs(m)))
                continue
            r, m = ex.prove(cl)
            if r == 'sat':
                findings.append(dict(clause=name, cell=cell, inputs=inputs(m)))
        if not samples:
            r, m = ex.witness(timeout_ms=2000)
            if r == 'sat':
                samples.append(dict(cell=f"marks layout={cell['layout']} keys={cell['keys']} current={cell['use_current']} enforce={cell['enforce']} pattern={cell['pattern']}",
                                    reachable_with=inputs(m)))
    ex.run(harness)
    seen, out = set(), []
    for f in findings:
        if f["clause"] in seen and len(out) > 3:
            continue
        seen.add(f["clause"])
        out.append(f)
    return out, samples, st


def _sessions(cell, stats):
    """grouping: records per included session in file order (two files), pooled flag, obfuscated record id"""
    ex = core.Explorer(stats=stats)
    findings, samples = [], []
    st = {'reach': 0}
    holder = {}
    Dom = load_dominion(holder, ["d/CvrExport_2.json", "d/CvrExport_1.json"])

    def harness(ex):
        g = [z3.Int(f"group{i}") for i in range(3)]
        groups = []
        for x in g:
            ex.assume(z3.And(x >= 1, x <= 2))
            groups.append(core.concretize_int(SV(x)))

        def sess(i, rid, grp, mask="00001_00002_000345"):
            return {"TabulatorId": i, "BatchId": 9, "RecordId": rid, "CountingGroupId": grp, "ImageMask": mask,
                    "Original": {"Contests": [{"Id": 5, "Marks": [{"CandidateId": 1, "IsVote": True, "Rank": 1}]}]}}
        holder["d/CvrExport_1.json"] = {"Sessions": [sess(1, 11, groups[0]), sess(2, "X", groups[1])]}
        holder["d/CvrExport_2.json"] = {"Sessions": [sess(3, 13, groups[2])]}
        try:
            out = Dom.read_cvrs_directory("d", use_current=True, enforce_rules=True, include_groups=cell["include"], pool_groups=cell["pool"])
        except core.PathAbort:
            raise
        except Exception as e:      # noqa
            ex.stats.sat += 1
            findings.append(dict(clause="exception", cell=cell, inputs=dict(groups=groups), observed=repr(e)))
            return
        st['reach'] += 1
        want = []
        for i, (tab, rid) in enumerate(((1, "11"), (2, "345"), (3, "13"))):
            if (not cell["include"]) or groups[i] in cell["include"]:
                want.append((f"{tab}-9-{rid}", f"{tab}-9", groups[i] in cell["pool"]))
        got = [(c.id, c.tally_pool, c.pool) for c in out]
        ex.stats.obligations += 1
        if got == want and all(isinstance(c.pool, bool) for c in out):
            ex.stats.discharged += 1
        else:
            ex.stats.sat += 1
            findings.append(dict(clause="one record per session of the included groups in file order, pooled iff its group is a pool group",
                                 cell=cell, inputs=dict(groups=groups), observed=got, expected=want))
        if not samples:
            samples.append(dict(cell=f"sessions include={cell['include']} pool={cell['pool']}", groups=groups, records=got))
    ex.run(harness)
    return findings, samples, st


def run_cell(cell):
    stats = core.Stats()
    findings, samples, st = (_marks if cell["kind"] == "marks" else _sessions)(cell, stats)
    return dict(stats=stats.as_dict(), findings=findings, samples=samples, vacuous=(st['reach'] == 0 and not findings))


def replay(f):
    import json
    import os
    import tempfile
    cell, inp = f["cell"], f["inputs"]
    Dom = loader.real_module("shangrla.formats.Dominion").Dominion
    d = tempfile.mkdtemp(prefix="c19-")
    try:
        if cell["kind"] == "sessions":
            groups = inp["groups"]

            def sess(i, rid, grp, mask="00001_00002_000345"):
                return {"TabulatorId": i, "BatchId": 9, "RecordId": rid, "CountingGroupId": grp, "ImageMask": mask,
                        "Original": {"Contests": [{"Id": 5, "Marks": [{"CandidateId": 1, "IsVote": True, "Rank": 1}]}]}}
            json.dump({"Sessions": [sess(1, 11, groups[0]), sess(2, "X", groups[1])]}, open(os.path.join(d, "CvrExport_1.json"), "w"))
            json.dump({"Sessions": [sess(3, 13, groups[2])]}, open(os.path.join(d, "CvrExport_2.json"), "w"))
            out = Dom.read_cvrs_directory(d, use_current=True, enforce_rules=True, include_groups=cell["include"], pool_groups=cell["pool"])
            want = []
            for i, (tab, rid) in enumerate(((1, "11"), (2, "345"), (3, "13"))):
                if (not cell["include"]) or groups[i] in cell["include"]:
                    want.append((f"{tab}-9-{rid}", f"{tab}-9", groups[i] in cell["pool"]))
            got = [(c.id, c.tally_pool, c.pool) for c in out]
            return dict(reproduced=got != want, detail=f"got {got}, expected {want}")
        session = {"TabulatorId": 7, "BatchId": 3, "RecordId": 12, "CountingGroupId": 2, "ImageMask": "x"}
        data = {}
        for key in cell["keys"]:
            blocks = []
            for cid in ([10, 11] if key == "Original" else [11]):
                marks = [{"CandidateId": c, "IsVote": bool(iv), "Rank": int(F(str(rk)))} for c, iv, rk in inp[f"{key}.{cid}"]]
                data[(key, cid)] = marks
                blocks.append({"Id": cid, "Marks": marks})
            session[key] = wrap(cell["layout"], blocks) if key == "Original" else {"Contests": blocks}
        path = os.path.join(d, "f.json")
        json.dump({"Sessions": [session]}, open(path, "w"))
        out = Dom.read_cvrs(path, use_current=cell["use_current"], enforce_rules=cell["enforce"])
        bad = []
        if len(out) != 1 or out[0].id != "7-3-12" or out[0].tally_pool != "7-3":
            bad.append(f"records {[(c.id, c.tally_pool) for c in out]}")
        else:
            src = {10: "Original", 11: ("Modified" if (cell["use_current"] and "Modified" in cell["keys"]) else "Original")}
            for cid in (10, 11):
                marks = data[(src[cid], cid)]
                want = {}
                for cand in (1, 2):
                    counted = [m for m in marks if m["CandidateId"] == cand and (m["IsVote"] or not cell["enforce"])]
                    if counted:
                        pos = [m["Rank"] for m in counted if m["Rank"] > 0]
                        want[str(cand)] = min(pos) if pos else 0
                got = {k: int(v) for k, v in out[0].votes.get(str(cid), {}).items()}
                if got != want:
                    bad.append(f"contest {cid}: got {got}, expected {want} from {src[cid]} marks {marks}")
        return dict(reproduced=bool(bad), detail="; ".join(bad) or "held")
    except Exception as e:      # noqa
        return dict(reproduced=True, detail=f"raised {e!r}")
    finally:
        import shutil
        shutil.rmtree(d, ignore_errors=True)
