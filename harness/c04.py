"""C04 - RAIRE assertions, if any, are true of the CVRs and exclude every other winner."""
from . import raire_h

PROPERTY = "C04"
META = dict(
    files=raire_h.FILES,
    functions=raire_h.FUNCS,
    explanation="compute_raire_assertions runs symbolically on B ballots that are symbolic partial rankings (leaf predicates merged, so "
                "tallies are symbolic sums; the search forks on tally comparisons, tallies are concretised by forks where the difficulty "
                "function needs them). Oracle independent of raire_utils: truth and tallies of all NEB/NEN assertions as linear z3 formulas "
                "over the ballot variables, 'contradicts' as a concrete relation between assertions and complete elimination orders. "
                "Non-empty result: reported tallies = oracle tallies, winner strictly larger, every order ending in another candidate is "
                "contradicted by a returned assertion, each assertion re-tallies to its reported numbers through its own predicates "
                "(C14's third clause). Empty result: valid only if no set of true assertions excludes every alternative winner. Second-call cells "
                "reuse one contest object after a concrete first profile; cells with two informal ballots (total above the number of CVRs).",
    bounds={"quick": {"candidates": 3, "ballots": "2, 3 (+ 2 ballot types with multiplicities 1..2)", "reported winner": "every candidate", "difficulty": "cp_estimate, bp_estimate", "hint": "none, one order"},
            "thorough": {"candidates": 3, "ballots": "2, 3, 4; 4 candidates x 2 ballots; 4 candidates x 2 weighted ballot types (1..2) with hint [C,A,D,B]; 2-3 ballot types with symbolic multiplicities 1..3", "hint": "none and every order"}},
    outside=["more ballots/candidates than the bound", "agap > 0", "logging"],
    assumptions=["ballots are duplicate-free partial rankings; all ballots contain the contest"],
    trusted=["symx core, merge", "oracle formulas"],
)


def cells(tier):
    return raire_h.cells_for(tier, "C04")


def run_cell(cell):
    return raire_h.run_cell(cell, {"C04"})


def replay(f):
    return raire_h.replay(f, {"C04"})
