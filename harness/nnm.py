"""Shared machinery for the NonnegMean properties (C01, C05, C11, C12, C13, C16): configuration grid,
symbolic construction of a NonnegMean instance from the real source, oracle formulas, replay helpers."""
import math
import warnings
from fractions import Fraction as F

import z3

from symx import core, npmodel, loader, merge
from symx.core import SB, SV, model_value
from symx.ev import EV, And, Or, Not, _b, in_unit, R

warnings.simplefilter("ignore")

FILES = ["shangrla/core/NonnegMean.py"]
INF = math.inf

# (test, rule-kind, rule) ; rule-kind: 'estim' | 'bet' | None
METHODS = [
    ("alpha_mart", "estim", "fixed_alternative_mean"),
    ("alpha_mart", "estim", "shrink_trunc"),
    ("alpha_mart", "estim", "optimal_comparison"),
    ("betting_mart", "bet", "fixed_bet"),
    ("betting_mart", "bet", "agrapa"),
    ("kaplan_kolmogorov", None, None),
    ("kaplan_markov", None, None),
    ("kaplan_wald", None, None),
    ("wald_sprt", None, None),
]

UT = {
    "plur": (F(1), F(1, 2)),
    "super": (F(3, 4), F(1, 2)),
    "cmp50": (F(2) / (2 - F(1, 2)), F(1, 2)),
    "cmp10": (F(2) / (2 - F(1, 10)), F(1, 2)),
    "cmp001": (F(2) / (2 - F(1, 1000)), F(1, 2)),
}


def method_id(m):
    return m[0] if m[1] is None else f"{m[0]}/{m[2]}"


def n_grid(method, n):
    """population sizes for a sample of length n"""
    t = method[0]
    if t in ("kaplan_markov", "kaplan_wald"):
        return ["inf"]
    if t == "kaplan_kolmogorov":
        return [n, n + 1, n + 3, 50]
    return [n, n + 1, n + 3, 50, "inf"]


def ut_grid(method, tier):
    if method[2] == "optimal_comparison":
        return ["cmp50", "cmp10", "cmp001"]
    if tier == "quick":
        return ["plur", "super", "cmp10"]
    return list(UT)


_loader = None


def sym_module():
    """the real NonnegMean.py loaded (once per process) against the models"""
    global _loader
    if _loader is None:
        _loader = loader.Loader()
    return _loader.load("shangrla.core.NonnegMean")


def fresh_module():
    """a new load of the current source (used when module state must not be shared)"""
    return loader.Loader().load("shangrla.core.NonnegMean")


class Inst:
    """one symbolic instance: NonnegMean object + variables"""
    pass


def build(ex, cfg, n=None, prefix="", x_kind="real", params_from=None):
    """Create symbolic parameters (with their documented ranges assumed on `ex`) and the NonnegMean object.
    cfg: dict(method=[test,kind,rule], N=int|'inf'|'sym', ut=key, ro=bool, fixed={name: value})"""
    M = sym_module()
    NM = M.NonnegMean
    test, kind, rule = cfg["method"]
    n = n if n is not None else cfg["n"]
    u, t = UT[cfg["ut"]]
    inst = Inst()
    inst.cfg = cfg
    inst.u, inst.t, inst.n = u, t, n
    inst.params = {}          # name -> z3 var
    fixed = cfg.get("fixed", {})

    def par(name, lo=None, hi=None, lo_strict=False, hi_strict=False):
        if params_from is not None and name in params_from.params:
            v = params_from.params[name]
            inst.params[name] = v
            return EV(v)
        if name in fixed:
            val = fixed[name]
            inst.params[name] = R(F(val))
            return F(val)
        v = z3.Real(prefix + name)
        inst.params[name] = v
        if lo is not None:
            ex.assume(v > R(lo) if lo_strict else v >= R(lo))
        if hi is not None:
            ex.assume(v < R(hi) if hi_strict else v <= R(hi))
        return EV(v)

    # population size
    if cfg["N"] == "inf":
        N = INF
        inst.Nz = None
    elif cfg["N"] == "sym":
        if params_from is not None:
            Nv = params_from.Nz
        else:
            Nv = z3.Int(prefix + "N")
            ex.assume(Nv >= n)
        N = SV(Nv)
        inst.Nz = Nv
    else:
        N = int(cfg["N"])
        inst.Nz = z3.IntVal(N)
    inst.N = N

    kw = {}
    if test in ("alpha_mart", "wald_sprt") and rule in (None, "fixed_alternative_mean", "shrink_trunc"):
        kw["eta"] = par("eta", t, u, True, True)
    if rule == "shrink_trunc":
        kw["c"] = par("c", 0, None, True)
        kw["d"] = par("d", 0, None, True)
        kw["f"] = par("f", 0, None)
        kw["minsd"] = par("minsd", 0, None, True)
    if rule == "optimal_comparison":
        kw["rate_error_2"] = par("rate_error_2", 0, 1)
    if rule == "fixed_bet":
        kw["lam"] = par("lam", 0, 1 / u)
    if rule == "agrapa":
        kw["lam"] = par("lam")
        c0 = par("c_grapa_0", 0, 1, True, True)
        cm = par("c_grapa_max", 0, 1, True, True)
        kw["c_grapa_0"], kw["c_grapa_max"] = c0, cm
        if "c_grapa_max" not in fixed and "c_grapa_0" not in fixed and params_from is None:
            ex.assume(inst.params["c_grapa_max"] >= inst.params["c_grapa_0"])
        kw["c_grapa_grow"] = par("c_grapa_grow", 0, None)
    if test in ("kaplan_kolmogorov", "kaplan_markov"):
        kw["g"] = par("g", 0, 1, False, True)
    if test == "kaplan_wald":
        kw["g"] = par("g", 0, 1)
    for name in cfg.get("omit", []):      # optional arguments left to the code's own defaults
        kw.pop(name, None)
        inst.params.pop(name, None)
    args = dict(test=getattr(NM, test), u=u, N=N, t=t, random_order=cfg.get("ro", True), **kw)
    if kind == "estim":
        args["estim"] = getattr(NM, rule)
    if kind == "bet":
        args["bet"] = getattr(NM, rule)
    inst.T = NM(**args)
    inst.kw = kw
    # sample
    if x_kind == "real":
        inst.xs = [z3.Real(f"{prefix}x{i + 1}") for i in range(n)]
        for x in inst.xs:
            ex.assume(z3.And(x >= 0, x <= R(u)))
        inst.x = npmodel.Arr([EV(x) for x in inst.xs])
    elif x_kind == "int01":      # integer-typed 0/1 sample (python ints / int64 array in real use)
        inst.xs = [z3.Int(f"{prefix}x{i + 1}") for i in range(n)]
        for x in inst.xs:
            ex.assume(z3.And(x >= 0, x <= 1))
        inst.x = npmodel.Arr([SV(x) for x in inst.xs])
    return inst


def xr(x):
    """z3 real of a sample variable"""
    return z3.ToReal(x) if z3.is_int(x) else x


def null_means(inst, xs=None):
    """oracle: m_j = (N t - S_{j-1})/(N-j+1) (finite N) or t, as z3 reals, for j = 1..n"""
    xs = inst.xs if xs is None else xs
    t = R(inst.t)
    if inst.Nz is None:
        return [t for _ in xs]
    Nr = z3.ToReal(inst.Nz)
    out = []
    S = z3.RealVal(0)
    for j, x in enumerate(xs, start=1):
        out.append((Nr * t - S) / (Nr - (j - 1)))
        S = S + xr(x)
    return out


def model_inputs(m, inst, extra=None):
    """concrete inputs of a model, as Fractions"""
    d = {"x": [model_value(m, x) for x in inst.xs]}
    for k, v in inst.params.items():
        d[k] = model_value(m, v)
    if inst.cfg["N"] == "sym":
        d["N"] = model_value(m, inst.Nz)
    if extra:
        for k, v in extra.items():
            d[k] = [model_value(m, e) for e in v] if isinstance(v, list) else model_value(m, v)
    return d


# ---------------------------------------------------------------------------------------------
def real_instance(cfg, inputs, n=None):
    """the REAL NonnegMean object (real numpy) for a configuration and concrete inputs"""
    NMmod = loader.real_module("shangrla.core.NonnegMean")
    NM = NMmod.NonnegMean
    test, kind, rule = cfg["method"]
    u, t = UT[cfg["ut"]]
    kw = {}
    for k, v in inputs.items():
        if k in ("x", "N", "y", "k", "alpha") or k.startswith("_"):
            continue
        kw[k] = float(F(v)) if not isinstance(v, list) else v
    for k, v in cfg.get("fixed", {}).items():
        kw.setdefault(k, float(F(v)))
    for k in cfg.get("omit", []):
        kw.pop(k, None)
    if cfg["N"] == "inf":
        N = math.inf
    elif cfg["N"] == "sym":
        N = int(inputs["N"])
    else:
        N = int(cfg["N"])
    args = dict(test=getattr(NM, test), u=float(u), N=N, t=float(t), random_order=cfg.get("ro", True), **kw)
    if kind == "estim":
        args["estim"] = getattr(NM, rule)
    if kind == "bet":
        args["bet"] = getattr(NM, rule)
    return NM(**args), NMmod


def fl(v):
    if isinstance(v, str):
        v = F(v)
    return float(v)


# ---------------------------------------------------------------------------------------------
# Cutting the test statistic at `cumprod` (observed inside the numpy model; the code is not touched)
_fresh = [0]


def regular_conds(inst, xs=None):
    """oracle: z3 Bool per position j saying the null conditional mean is regular (0 < m_j < u; kaplan_kolmogorov: m'_j > 0)"""
    xs = inst.xs if xs is None else xs
    test = inst.cfg["method"][0]
    if test == "kaplan_kolmogorov":
        g = inst.params["g"]
        t = R(inst.t)
        Nr = z3.ToReal(inst.Nz)
        out = []
        S = z3.RealVal(0)
        for j, x in enumerate(xs, start=1):
            m = (Nr * (t + g) - S) / (Nr - (j - 1))
            out.append(m > 0)
            S = S + xr(x) + g
        return out
    if test in ("kaplan_markov",):
        g = inst.params["g"]
        return [xr(x) + g > 0 for x in xs]
    if test in ("kaplan_wald",):
        return [z3.BoolVal(True) for _ in xs]
    ms = null_means(inst, xs)
    u = R(inst.u)
    return [z3.And(m > 0, m < u) for m in ms]


def split_by_first_irregular(ex, reg):
    """fork the current path on the first position whose null mean is irregular; returns k (0-based) or len(reg) if none"""
    for j, r in enumerate(reg):
        if not bool(SB(r)):
            return j
    return len(reg)


class Cut:
    """cumprod observer.
    mode 'record'   : remember the factor arrays, compute exactly.
    mode 'abstract' : the path is already restricted (by forks in the harness) to `positions < k are regular, position k is not`.
                      Prove per factor i < k `f_i finite and >= 0` (local query), then replace the products by fresh values:
                      T_j (j < k) any finite real >= 0; T_j (j >= k) any float whatsoever (NaN and +-inf included).
                      Sound over-approximation; if a factor lemma is not proved the cut is abandoned (exact products), `failed` set."""

    def __init__(self, inst, mode="abstract", xs=None, k=None):
        self.inst = inst
        self.mode = mode
        self.k = k
        self.calls = []
        self.failed = []        # (index, verdict, model) of factor lemmas that were not proved
        self.lemmas = 0

    def __enter__(self):
        npmodel.OBSERVERS.append(self)
        return self

    def __exit__(self, *a):
        npmodel.OBSERVERS.remove(self)

    def __call__(self, name, arg):
        if name != 'cumprod':
            return None
        self.calls.append(arg)
        if self.mode != "abstract" or self.k is None or len(arg) != self.inst.n:
            return None
        ex = core.cur()
        fs = [EV.of(v) for v in arg.a]
        keys = _prefix_keys(fs)
        for i, f in enumerate(fs[:self.k]):
            if ('lemma', keys[i][-3:]) in ex.shared:
                continue
            r, m = ex.prove(_b(And(f.fin(), f.v >= 0)), timeout_ms=10000)
            self.lemmas += 1
            if r != 'unsat':
                self.failed.append((i, r, m))
                return None
            ex.shared[('lemma', keys[i][-3:])] = (True, [])
        out = []
        for j in range(len(fs)):
            def make(j=j):
                _fresh[0] += 1
                q = _fresh[0]
                if j < self.k:
                    v = z3.Real(f"T!{q}")
                    return EV(v), [v >= 0]
                v, bi, bn = z3.Real(f"T!{q}"), z3.Bool(f"Tinf!{q}"), z3.Bool(f"Tnan!{q}")
                return EV(v, bi, bn), [z3.Implies(bi, z3.Or(v == 1, v == -1))]
            out.append(ex.define(('cutprod', j < self.k, keys[j]), make))
        return npmodel.Arr(out)


def _prefix_keys(fs):
    """identity keys of the factor prefixes f_1..f_j (term ids after simplification; the terms are kept alive by the caller)"""
    keys = []
    key = ()
    for f in fs:
        parts = (z3.simplify(f.v), f.inf if isinstance(f.inf, bool) else z3.simplify(f.inf),
                 f.nan if isinstance(f.nan, bool) else z3.simplify(f.nan))
        _KEEP.append(parts)
        key = key + tuple(p if isinstance(p, bool) else p.get_id() for p in parts)
        keys.append(key)
    return keys


_KEEP = []      # keeps keyed terms alive so that z3 ast ids are not reused within a process


class SharedCut:
    """cumprod observer for comparisons between runs: products are replaced by fresh, completely unconstrained floats
    (NaN and infinities included), one per distinct *prefix of factor terms*; two runs whose first j factors are the same
    terms therefore get the same T_j.  Trivially sound (an unconstrained value over-approximates any product)."""

    def __init__(self, table):
        self.table = table

    def __enter__(self):
        npmodel.OBSERVERS.append(self)
        return self

    def __exit__(self, *a):
        npmodel.OBSERVERS.remove(self)

    def __call__(self, name, arg):
        if name != 'cumprod':
            return None
        ex = core.cur()
        out = []
        key = ()
        for f in arg.a:
            f = EV.of(f)
            parts = (z3.simplify(f.v), f.inf if isinstance(f.inf, bool) else z3.simplify(f.inf),
                     f.nan if isinstance(f.nan, bool) else z3.simplify(f.nan))
            key = key + tuple(p if isinstance(p, bool) else p.get_id() for p in parts)

            def make(parts=parts):
                _fresh[0] += 1
                q = _fresh[0]
                v, bi, bn = z3.Real(f"P!{q}"), z3.Bool(f"Pinf!{q}"), z3.Bool(f"Pnan!{q}")
                return (EV(v, bi, bn), parts), [z3.Implies(bi, z3.Or(v == 1, v == -1))]
            val = ex.define(('prod', key), make)
            out.append(val[0])
        return npmodel.Arr(out)
