"""C10 - escalation only ever extends the evidence."""
import itertools
from fractions import Fraction as F

import z3

from symx import core, npmodel, merge
from symx.core import SB, SV, model_value
from symx.ev import EV, And, Or, Not, _b, R
from . import aud, nnm, c07

PROPERTY = "C10"
META = dict(
    files=aud.FILES,
    functions=["CVR.consistent_sampling (redraw and continue via sampled_cvr_indices)", "CVR.prep_comparison_sample", "Assertion.mvrs_to_data",
               "Assertion.set_p_values", "NonnegMean.<every test>.test"],
    explanation="(a) Two (thorough: three) consecutive rounds of consistent_sampling with symbolic styles, sample numbers and non-decreasing "
                "symbolic sizes, redrawn from scratch and continued from the previous selection: each round's selection contains the "
                "previous one, has no repetition, and every contest's data sequence (cards handed to mvrs_to_data) is the previous "
                "sequence with new cards appended. (b) For every test configuration p(x+y) <= p(x) for symbolic x, y (products cut at "
                "cumprod and shared between the two runs). (c) set_p_values with a nondeterministic test stub: `proved` never reverts.",
    bounds={"quick": {"selection": "3 cards x 2 contests, 4 x 1; 2 rounds", "risk": "n = 2 + 1 appended, N in {n+1, n+3, inf}"},
            "thorough": {"selection": "4 x 2, 3 x 2 with 3 rounds", "risk": "n <= 3 + up to 2 appended"}},
    outside=["more cards/contests/rounds than the shapes", "floating-point rounding"],
    assumptions=["distinct sample numbers; per-contest sizes non-decreasing and <= cards listing the contest", "random_order=True for clause (b)",
                 "data clause for contests with n_c >= 1 in the earlier round"],
    trusted=["symx numpy model", "cumprod abstraction (products of finite non-negative factors are finite non-negative)"],
)


def cells(tier):
    out = []
    shapes = [(3, 2, 2), (4, 1, 2), (2, 2, 2)] if tier == "quick" else [(4, 2, 2), (3, 2, 3), (3, 3, 2)]
    for M, C, R_ in shapes:
        for p in itertools.permutations(range(M)):
            out.append(dict(kind="select", M=M, C=C, rounds=R_, perm=list(p)))
    for m in nnm.METHODS:
        for n, extra in ([(2, 1)] if tier == "quick" else [(2, 1), (2, 2), (3, 1)]):
            tot = n + extra
            grid = nnm.n_grid(m, tot)
            for N in [N for N in (tot, tot + 2, "inf") if N in grid or (N == tot + 2 and tot + 3 in grid)]:
                for ut in (["plur", "cmp10"] if tier == "quick" else nnm.ut_grid(m, tier)):
                    if m[2] == "optimal_comparison" and ut == "plur":
                        continue
                    fixed = {"d": 1} if m[2] == "shrink_trunc" else {}
                    if m[2] == "shrink_trunc" and N != "inf":
                        fixed["f"] = 0
                    out.append(dict(kind="risk", method=list(m), n=n, extra=extra, N=N, ut=ut, ro=True, fixed=fixed))
    if tier == "quick":
        # rules using the running variance: old bets/alternatives must not change when the sample grows (needs 3 old observations)
        for m in nnm.METHODS:
            if m[2] in ("agrapa", "shrink_trunc"):
                for N in (6, "inf"):
                    out.append(dict(kind="risk", method=list(m), n=3, extra=1, N=N, ut="plur", ro=True, fixed=({"d": 1} if m[2] == "shrink_trunc" else {})))
    out.append(dict(kind="proved"))
    return out


def _data(A, cons, cvrs, res, C, n, ex):
    """cards (ids) handed to each contest's assertions, in order"""
    CVR, Assertion, Assorter = A.CVR, A.Assertion, A.Assorter
    order = {i: {"selection_order": p} for p, i in enumerate(res)}
    cs = [cvrs[i] for i in res]
    ms = [CVR(id=cvrs[i].id, votes=cvrs[i].votes) for i in res]
    CVR.prep_comparison_sample(ms, cs, order)
    data = {}
    for c in range(C):
        asn = Assertion(contest=cons[f"k{c}"], assorter=Assorter(contest=cons[f"k{c}"], assort=lambda v: 0, upper_bound=1), margin=0.1)
        asn.overstatement_assorter = lambda mvr, cvr, use_style=True: cvr.id
        if bool(SB(n[c] >= 1)):
            d, u = asn.mvrs_to_data(ms, cs)
            data[c] = [int(v) for v in d]
        else:
            data[c] = None
    return data


def _select(cell, stats):
    ex = core.Explorer(stats=stats)
    findings, samples = [], []
    st = {'reach': 0}
    A = aud.sym_audit()
    CVR, Contest = A.CVR, A.Contest
    M, C, RN = cell["M"], cell["C"], cell["rounds"]

    def harness(ex):
        sn = [z3.Int(f"s{i}") for i in range(M)]
        if M > 1:
            ex.assume(z3.Distinct(*sn))
        for s in sn:
            ex.assume(z3.And(s >= 0, s < 2 ** 55))
        perm = cell["perm"]
        for a, b in zip(perm, perm[1:]):
            ex.assume(sn[a] < sn[b])
        pres = [[z3.Bool(f"has_{i}_{c}") for c in range(C)] for i in range(M)]
        sizes = [[z3.Int(f"n{r}_{c}") for c in range(C)] for r in range(RN)]
        for c in range(C):
            avail = z3.Sum([z3.If(pres[i][c], 1, 0) for i in range(M)])
            ex.assume(sizes[0][c] >= 0)
            for r in range(1, RN):
                ex.assume(sizes[r - 1][c] <= sizes[r][c])
            ex.assume(sizes[RN - 1][c] <= avail)

        def mk():
            cons = {f"k{c}": Contest(id=f"k{c}", use_style=True, audit_type="CARD_COMPARISON") for c in range(C)}
            cvrs = [CVR(id=i, votes=aud.PresDict({f"k{c}": pres[i][c] for c in range(C)}, {f"k{c}": aud.Poison() for c in range(C)}),
                        sample_num=SV(sn[i])) for i in range(M)]
            return cons, cvrs
        inputs = lambda m: dict(lists=[[bool(model_value(m, pres[i][c])) for c in range(C)] for i in range(M)],
                                sample_nums=[model_value(m, s) for s in sn],
                                sizes=[[model_value(m, x) for x in row] for row in sizes])
        hist = {}
        try:
            for variant in ("redraw", "continue"):
                cons, cvrs = mk()
                prev = None
                seq = []
                for r in range(RN):
                    if variant == "redraw":
                        cons, cvrs = mk()
                    for c in range(C):
                        cons[f"k{c}"].sample_size = SV(sizes[r][c])
                    if variant == "continue" and prev is not None:
                        res = CVR.consistent_sampling(cvrs, cons, sampled_cvr_indices=list(prev))
                    else:
                        res = CVR.consistent_sampling(cvrs, cons)
                    res = [int(i) for i in res]
                    seq.append((res, _data(A, cons, cvrs, res, C, sizes[r], ex)))
                    prev = res
                hist[variant] = seq
        except core.PathAbort:
            raise
        except Exception as e:      # noqa
            r_, m = ex.witness()
            if r_ == 'sat':
                findings.append(dict(clause="exception", cell=cell, inputs=inputs(m), observed=repr(e)))
            elif r_ != 'unsat':
                ex.stats.inconclusive += 1
            return
        st['reach'] += 1
        bad = []
        for variant, seq in hist.items():
            for r in range(RN):
                res, data = seq[r]
                if len(set(res)) != len(res):
                    bad.append(f"{variant} round {r + 1}: repeated card in {res}")
                if r > 0:
                    pres_, pdata = seq[r - 1]
                    if not set(pres_) <= set(res):
                        bad.append(f"{variant} round {r + 1}: selection {res} does not contain the previous round's {pres_}")
                    for c in range(C):
                        if pdata[c] is not None and (data[c] is None or data[c][:len(pdata[c])] != pdata[c]):
                            bad.append(f"{variant} round {r + 1}: data of contest {c} {data[c]} do not extend {pdata[c]}")
        ex.stats.obligations += 1
        if not bad:
            ex.stats.discharged += 1
        else:
            r_, m = ex.witness()
            if r_ == 'sat':
                ex.stats.sat += 1
                findings.append(dict(clause=bad[0], cell=cell, inputs=inputs(m), observed={k: [list(x) for x in v] for k, v in hist.items()}))
            elif r_ != 'unsat':
                ex.stats.inconclusive += 1
        # the concrete per-path comparison above is exact because the path condition fixes every comparison the code made;
        # the solver is what enumerated the paths (all orders/styles/sizes) and certifies each one feasible
        if len(samples) < 1 and hist["redraw"][-1][0]:
            r_, m = ex.witness(timeout_ms=3000)
            if r_ == 'sat':
                samples.append(dict(cell=f"{M}x{C}, {RN} rounds", rounds=[s[0] for s in hist["continue"]], reachable_with=inputs(m)))
    ex.run(harness)
    return findings, samples, st


def _risk(cell, stats):
    ex = core.Explorer(stats=stats)
    findings, samples = [], []
    st = {'reach': 0, 'open': 0}
    n, extra = cell["n"], cell["extra"]

    def run(mode):
        def harness(ex):
            inst = nnm.build(ex, dict(cell, n=n + extra))
            k = nnm.split_by_first_irregular(ex, nnm.regular_conds(inst)) if mode == "abstract" else None
            xlong = inst.x
            xshort = npmodel.Arr(list(inst.x.a[:n]))
            try:
                outs = []
                for arr in (xshort, xlong):
                    sub = type("I", (), {})()
                    sub.n = len(arr)
                    sub.cfg = inst.cfg
                    cut = nnm.Cut(sub, mode, k=(min(k, len(arr)) if k is not None else None))
                    with cut:
                        outs.append(merge.merged_call(inst.T.test, arr))
            except Exception as e:      # noqa
                r, m = ex.witness()
                if r == 'sat':
                    findings.append(dict(clause="exception", cell=cell, inputs=nnm.model_inputs(m, inst), observed=repr(e)))
                elif r != 'unsat':
                    ex.stats.inconclusive += 1
                return
            st['reach'] += 1
            p1, p2 = EV.of(outs[0][0]), EV.of(outs[1][0])
            claim = _b(And(Not(p1.nan), Not(p2.nan), (p2 <= p1).e))
            if mode == "abstract":
                before = (ex.stats.inconclusive, ex.stats.sat, ex.stats.obligations)
                r, mdl = ex.prove(claim, timeout_ms=8000)
                if r != 'unsat':
                    ex.stats.inconclusive, ex.stats.sat, ex.stats.obligations = before
                    st['open'] += 1
            else:
                r, mdl = ex.prove(claim, timeout_ms=30000)
                if r == 'sat':
                    findings.append(dict(clause=f"measured risk after {n + extra} observations exceeds the risk after the first {n}", cell=cell,
                                         inputs=nnm.model_inputs(mdl, inst)))
            if not samples:
                r, mdl = ex.witness(timeout_ms=3000)
                if r == 'sat':
                    samples.append(dict(cell="risk " + nnm.method_id(cell["method"]) + f" n={n}+{extra} N={cell['N']} {cell['ut']}", stage=mode,
                                        reachable_with=nnm.model_inputs(mdl, inst)))
        ex.run(harness)
    run("abstract")
    notes = []
    if st['open']:
        st['open'] = 0
        before_inc = ex.stats.inconclusive
        run("exact")
        notes.append(f"exact stage used for risk {nnm.method_id(cell['method'])} N={cell['N']} {cell['ut']}")
        if ex.stats.inconclusive > before_inc and not findings:
            # the exact query is undecided: look for a concrete witness on the real code (the replay is the arbiter of any alarm);
            # samples are drawn on a small lattice around the abstract counterexample's parameters
            w = _concrete_search(cell)
            if w is not None:
                findings.append(w)
                ex.stats.inconclusive = before_inc
    return findings, samples, st, notes


def _concrete_search(cell, budget=1500):
    import random
    import numpy as np
    rnd = random.Random(1234)
    n, extra = cell["n"], cell["extra"]
    u, t = (float(v) for v in nnm.UT[cell["ut"]])
    test, kind, rule = cell["method"]
    for trial in range(budget):
        x = [rnd.choice((0.0, u / 4, u / 2, 3 * u / 4, u, round(rnd.uniform(0, u), 3))) for _ in range(n + extra)]
        inp = {"x": [str(F(v)) for v in x]}
        if test in ("alpha_mart", "wald_sprt") and rule in (None, "fixed_alternative_mean", "shrink_trunc"):
            inp["eta"] = str(F(rnd.choice((0.51, 0.6, 0.75, 0.9)) * u if u <= 1 else rnd.uniform(t + 0.01, u - 0.001)).limit_denominator(10 ** 6))
        if rule == "shrink_trunc":
            inp.update(c=str(F(rnd.choice((0.1, 0.5, 1.0))).limit_denominator(100)), minsd=str(F(rnd.choice((0.001, 0.1))).limit_denominator(1000)))
            if "f" not in cell.get("fixed", {}):
                inp["f"] = str(F(rnd.choice((0.0, 0.05, 0.5, 2.0))).limit_denominator(100))
            if "d" not in cell.get("fixed", {}):
                inp["d"] = str(rnd.choice((1, 10, 100)))
        if rule == "optimal_comparison":
            inp["rate_error_2"] = str(F(rnd.choice((0.0, 1e-4, 0.01))).limit_denominator(10 ** 6))
        if rule == "fixed_bet":
            inp["lam"] = str(F(rnd.uniform(0, 1 / u)).limit_denominator(1000))
        if rule == "agrapa":
            inp.update(lam=str(F(rnd.choice((0.1, 0.5, 1.0, 2.0))).limit_denominator(10)), c_grapa_0=str(F(rnd.choice((0.5, 0.9))).limit_denominator(10)),
                       c_grapa_max=str(F(95, 100)), c_grapa_grow=str(rnd.choice((0, 1))))
        if test in ("kaplan_kolmogorov", "kaplan_markov", "kaplan_wald"):
            inp["g"] = str(F(rnd.choice((0.0, 0.1, 0.5))).limit_denominator(10))
        f = dict(clause=f"measured risk after {n + extra} observations exceeds the risk after the first {n} (concrete witness after an undecided query)",
                 cell=cell, inputs=inp)
        try:
            rp = replay(f)
        except Exception:      # noqa
            continue
        if rp["reproduced"] and "raised" not in rp["detail"]:
            f["replay"] = rp
            return f
    return None


def _proved(cell, stats):
    """two calls of set_p_values with a nondeterministic test: proved never reverts, and is set when p <= limit"""
    ex = core.Explorer(stats=stats)
    findings, samples = [], []
    A = aud.sym_audit()

    def harness(ex):
        p1, p2, lim = z3.Real("p1"), z3.Real("p2"), z3.Real("limit")
        ex.assume(z3.And(p1 >= 0, p1 <= 1, p2 >= 0, p2 <= 1, lim > 0, lim <= F(1, 2)))
        con = A.Contest(id="k", risk_limit=EV(lim), audit_type="POLLING", use_style=False)

        class StubTest:
            def __init__(self):
                self.k = 0
                self.u = 1

            def test(self, d):
                self.k += 1
                return (EV(p1), npmodel.Arr([EV(p1)])) if self.k == 1 else (EV(p2), npmodel.Arr([EV(p1), EV(p2)]))
        asn = A.Assertion(contest=con, assorter=A.Assorter(contest=con, assort=lambda c: 0.5, upper_bound=1), test=StubTest(), margin=0.1)
        con.assertions = {"a": asn}
        mv = [A.CVR(id=1, votes={})]
        A.Assertion.set_p_values({"k": con}, mv, None)
        f1 = asn.proved
        A.Assertion.set_p_values({"k": con}, mv + [A.CVR(id=2, votes={})], None)
        f2 = asn.proved
        b = lambda v: v.e if isinstance(v, SB) else z3.BoolVal(bool(v))
        for name, cl in (("confirmed after round 1 iff p1 <= limit", b(f1) == (p1 <= lim)),
                         ("once confirmed stays confirmed", z3.Implies(b(f1), b(f2))),
                         ("confirmed after round 2 iff p2 <= limit or confirmed before", b(f2) == z3.Or(p2 <= lim, b(f1)))):
            r, mdl = ex.prove(cl)
            if r == 'sat':
                findings.append(dict(clause=name, cell=cell, inputs={"p1": model_value(mdl, p1), "p2": model_value(mdl, p2), "limit": model_value(mdl, lim)}))
        samples.append(dict(cell="proved flag over two rounds", note="p1, p2, limit symbolic"))
    ex.run(harness)
    return findings, samples, {'reach': 1}


def run_cell(cell):
    stats = core.Stats()
    notes = []
    if cell["kind"] == "select":
        findings, samples, st = _select(cell, stats)
    elif cell["kind"] == "risk":
        findings, samples, st, notes = _risk(cell, stats)
    else:
        findings, samples, st = _proved(cell, stats)
    return dict(stats=stats.as_dict(), findings=findings, samples=samples, notes=notes, vacuous=(st['reach'] == 0 and not findings))


def replay(f):
    import numpy as np
    cell, inp = f["cell"], f["inputs"]
    A = aud.real_audit()
    if cell["kind"] == "risk":
        T, _ = nnm.real_instance(dict(cell, n=cell["n"] + cell["extra"]), inp)
        x = np.array([nnm.fl(v) for v in inp["x"]])
        try:
            with np.errstate(all="ignore"):
                p1 = float(T.test(x[:cell["n"]])[0])
                p2 = float(T.test(x)[0])
        except Exception as e:      # noqa
            return dict(reproduced=True, detail=f"raised {e!r}")
        bad = p2 != p2 or p1 != p1 or p2 > p1 * (1 + 1e-9) + 1e-300
        return dict(reproduced=bool(bad), detail=f"p after {cell['n']} observations = {p1!r}, after {len(x)} = {p2!r}")
    if cell["kind"] == "proved":
        p1, p2, lim = (float(F(str(inp[k]))) for k in ("p1", "p2", "limit"))
        con = A.Contest(id="k", risk_limit=lim, audit_type="POLLING", use_style=False)

        class StubTest:
            def __init__(self):
                self.k = 0
                self.u = 1

            def test(self, d):
                self.k += 1
                return (p1, np.array([p1])) if self.k == 1 else (p2, np.array([p1, p2]))
        asn = A.Assertion(contest=con, assorter=A.Assorter(contest=con, assort=lambda c: 0.5, upper_bound=1), test=StubTest(), margin=0.1)
        con.assertions = {"a": asn}
        mv = [A.CVR(id=1, votes={})]
        A.Assertion.set_p_values({"k": con}, mv, None)
        f1 = bool(asn.proved)
        A.Assertion.set_p_values({"k": con}, mv + [A.CVR(id=2, votes={})], None)
        f2 = bool(asn.proved)
        bad = (f1 != (p1 <= lim)) or (f1 and not f2) or (f2 != ((p2 <= lim) or f1))
        return dict(reproduced=bool(bad), detail=f"p1={p1} p2={p2} limit={lim}: proved after round 1 {f1}, after round 2 {f2}")
    M, C, RN = cell["M"], cell["C"], cell["rounds"]
    lists, sn = inp["lists"], [int(F(str(s))) for s in inp["sample_nums"]]
    sizes = [[int(x) for x in row] for row in inp["sizes"]]

    def mk():
        cons = {f"k{c}": A.Contest(id=f"k{c}", use_style=True, audit_type="CARD_COMPARISON") for c in range(C)}
        cvrs = [A.CVR(id=i, votes={f"k{c}": {} for c in range(C) if lists[i][c]}, sample_num=sn[i]) for i in range(M)]
        return cons, cvrs

    def data_of(cons, cvrs, res, r):
        order = {i: {"selection_order": p} for p, i in enumerate(res)}
        cs = [cvrs[i] for i in res]
        ms = [A.CVR(id=cvrs[i].id, votes=cvrs[i].votes) for i in res]
        A.CVR.prep_comparison_sample(ms, cs, order)
        out = {}
        for c in range(C):
            if sizes[r][c] < 1:
                out[c] = None
                continue
            asn = A.Assertion(contest=cons[f"k{c}"], assorter=A.Assorter(contest=cons[f"k{c}"], assort=lambda v: 0, upper_bound=1), margin=0.1)
            asn.overstatement_assorter = lambda mvr, cvr, use_style=True: cvr.id
            d, u = asn.mvrs_to_data(ms, cs)
            out[c] = [int(v) for v in d]
        return out
    bad = []
    hist = {}
    try:
        for variant in ("redraw", "continue"):
            cons, cvrs = mk()
            prev = None
            seq = []
            for r in range(RN):
                if variant == "redraw":
                    cons, cvrs = mk()
                for c in range(C):
                    cons[f"k{c}"].sample_size = sizes[r][c]
                res = A.CVR.consistent_sampling(cvrs, cons, sampled_cvr_indices=list(prev)) if (variant == "continue" and prev is not None) \
                    else A.CVR.consistent_sampling(cvrs, cons)
                res = [int(i) for i in res]
                seq.append((res, data_of(cons, cvrs, res, r)))
                prev = res
            hist[variant] = seq
    except Exception as e:      # noqa
        return dict(reproduced=True, detail=f"raised {e!r}")
    for variant, seq in hist.items():
        for r in range(RN):
            res, data = seq[r]
            if len(set(res)) != len(res):
                bad.append(f"{variant} round {r + 1}: repeated card in {res}")
            if r > 0:
                pres_, pdata = seq[r - 1]
                if not set(pres_) <= set(res):
                    bad.append(f"{variant} round {r + 1}: {res} does not contain {pres_}")
                for c in range(C):
                    if pdata[c] is not None and (data[c] is None or data[c][:len(pdata[c])] != pdata[c]):
                        bad.append(f"{variant} round {r + 1}: data of contest {c} {data[c]} do not extend {pdata[c]}")
    return dict(reproduced=bool(bad), detail="; ".join(bad[:3]) or "held")
