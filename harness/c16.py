"""C16 - sample-size estimates are first-crossing times on the assumed data."""
import itertools
import math
from fractions import Fraction as F

import z3

from symx import core, npmodel, merge, loader
from symx.core import SB, SV, model_value, concretize_int, ite
from symx.ev import EV, And, Or, Not, _b, R
from . import aud, nnm

PROPERTY = "C16"
META = dict(
    files=["shangrla/core/NonnegMean.py", "shangrla/core/Audit.py", "shangrla/raire/sample_estimator.py"],
    functions=["NonnegMean.sample_size", "Assertion.find_sample_size", "Assertion.make_overstatement", "Assertion.interleave_values",
               "Contest.find_sample_size", "Audit.find_sample_size", "raire.sample_estimator.sample_size"],
    explanation="(1) sample_size(x, alpha, reps=None): pilot values and alpha symbolic; the oracle tiles the pilot itself, runs the code's own test "
                "on it and forms the first-crossing index as an If-chain; the code's estimate (sum/argmax kept symbolic) must equal it. "
                "(2) simulation with prefix: RandomState.choice is a stub returning arbitrary elements; if the history of the sequence "
                "crosses at k within the prefix, the estimate is k for every seed/repetition count/quantile. (3) contest / audit estimates = "
                "max over the contest's own assertions (assertion estimates stubbed symbolic). (4) interleave_values returns exactly the "
                "requested counts (counts symbolic, concretised by forks). (5) from-scratch populations: error-free values with one- and "
                "two-vote overstatements at multiples of int(1/rate), and interleaved tallies for polling; estimate = first crossing of "
                "the code's own test. (6) raire.sample_estimator.sample_size likewise.",
    bounds={"quick": {"N": "4..6", "pilot length": "2, 3", "tests": "kaplan_markov, kaplan_wald, alpha_mart/fixed_alternative_mean", "reps": "1, 2",
                      "rates": "0, 1/2, 1/3 (incl. both 0)", "tallies": "sum <= 5"},
            "thorough": {"N": "4..7", "tests": "+ betting_mart/fixed_bet", "reps": "1, 2, 3", "tallies": "sum <= 6"}},
    outside=["populations beyond the bound", "the Mersenne-Twister stream (any elements of x)"],
    assumptions=["alpha in (0,1)", "pilot values in [0,u]"],
    trusted=["symx numpy/builtins model"],
)
TESTS = {"kaplan_markov": dict(method=["kaplan_markov", None, None], N_inf=True),
         "kaplan_wald": dict(method=["kaplan_wald", None, None], N_inf=True),
         "alpha_fixed": dict(method=["alpha_mart", "estim", "fixed_alternative_mean"], N_inf=False),
         "betting_fixed": dict(method=["betting_mart", "bet", "fixed_bet"], N_inf=False)}


def cells(tier):
    out = []
    tests = ["kaplan_markov", "kaplan_wald", "alpha_fixed"] + (["betting_fixed"] if tier != "quick" else [])
    for t in tests:
        for N, L in ([(4, 2), (5, 2), (5, 3), (6, 3)] if tier == "quick" else [(4, 2), (5, 2), (5, 3), (6, 3), (7, 2), (7, 3), (6, 4)]):
            out.append(dict(kind="tile", test=t, N=N, L=L))
    for t in ("kaplan_markov", "kaplan_wald"):
        for reps in ((1, 2) if tier == "quick" else (1, 2, 3)):
            out.append(dict(kind="prefix", test=t, N=4, L=2, reps=reps))
    for shape in ([1], [2], [1, 2], [2, 2]):
        out.append(dict(kind="contest_max", shape=shape))
    out.append(dict(kind="interleave", total=5 if tier == "quick" else 6))
    for r1, r2 in (("1/2", "0"), ("1/3", "1/2"), ("0", "1/3"), ("1/2", "1/2"), ("0", "0")):
        for N in (4, 6):
            out.append(dict(kind="scratch", audit_type="CARD_COMPARISON", rate_1=r1, rate_2=r2, N=N))
            if r2 == "0":      # a wide margin, so that the error-free values cross small risk limits within N
                out.append(dict(kind="scratch", audit_type="CARD_COMPARISON", rate_1=r1, rate_2=r2, N=N, margin="4/5"))
    out.append(dict(kind="scratch", audit_type="POLLING", N=5))
    out.append(dict(kind="raire", N=4, r1="1/2", r2="0"))
    out.append(dict(kind="raire", N=5, r1="1/3", r2="1/2"))
    return out


def first_crossing(hist, alpha, N):
    """oracle: If-chain for the first index with history <= alpha, else N"""
    r = N
    for j in range(len(hist) - 1, -1, -1):
        h = EV.of(hist[j])
        r = ite((h <= EV(alpha)).e, j + 1, r)
    return r


def _as_z3int(v):
    if isinstance(v, SV):
        return v.e
    if isinstance(v, EV):
        return z3.ToInt(v.v)
    return z3.IntVal(int(v))


def _mk_test(ex, cell, N, M):
    NM = M.NonnegMean
    t = TESTS[cell["test"]]
    kw = {}
    name = t["method"][0]
    if name in ("kaplan_markov", "kaplan_wald"):
        g = z3.Real("g")
        ex.assume(z3.And(g >= F(1, 10), g <= F(1, 2)))
        kw["g"] = EV(g)
    if name == "alpha_mart":
        eta = z3.Real("eta")
        ex.assume(z3.And(eta > F(1, 2), eta < 1))
        kw["eta"] = EV(eta)
        kw["estim"] = NM.fixed_alternative_mean
    if name == "betting_mart":
        lam = z3.Real("lam")
        ex.assume(z3.And(lam >= 0, lam <= 1))
        kw["lam"] = EV(lam)
        kw["bet"] = NM.fixed_bet
    return NM(test=getattr(NM, name), u=1, N=N, t=F(1, 2), **kw), kw


def _tile(cell, stats):
    ex = core.Explorer(stats=stats)
    findings, samples = [], []
    st = {'reach': 0}
    M = nnm.sym_module()
    N, L = cell["N"], cell["L"]

    def harness(ex):
        xs = [z3.Real(f"x{i + 1}") for i in range(L)]
        for x in xs:
            ex.assume(z3.And(x >= 0, x <= 1))
        alpha = z3.Real("alpha")
        ex.assume(z3.And(alpha > 0, alpha < 1))
        T, kw = _mk_test(ex, cell, N, M)
        pilot = npmodel.Arr([EV(x) for x in xs])
        inputs = lambda m: dict(x=[model_value(m, x) for x in xs], alpha=model_value(m, alpha),
                                **{k: model_value(m, v.v) for k, v in kw.items() if isinstance(v, EV)})
        try:
            table = {}
            with nnm.SharedCut(table):
                est = T.sample_size(pilot, alpha=EV(alpha), reps=None)
                pop = npmodel.Arr([EV(xs[i % L]) for i in range(N)])          # the documented population: the pilot tiled to length N
                p, hist = merge.merged_call(T.test, pop)
        except core.PathAbort:
            raise
        except Exception as e:      # noqa
            r, m = ex.witness()
            if r == 'sat':
                findings.append(dict(clause="exception", cell=cell, inputs=inputs(m), observed=repr(e)))
            elif r != 'unsat':
                ex.stats.inconclusive += 1
            return
        st['reach'] += 1
        spec = first_crossing(list(hist), alpha, N)
        r, m = ex.prove(_as_z3int(est) == _as_z3int(spec))
        if r == 'sat':
            findings.append(dict(clause="deterministic estimate = first crossing on the tiled population (else N)", cell=cell, inputs=inputs(m)))
        elif r == 'unknown':
            pass
        if not samples:
            r, m = ex.witness(timeout_ms=3000)
            if r == 'sat':
                samples.append(dict(cell=f"tile {cell['test']} N={N} pilot length {L}", reachable_with=inputs(m)))
    ex.run(harness)
    return findings, samples, st


def _prefix(cell, stats):
    ex = core.Explorer(stats=stats)
    findings, samples = [], []
    st = {'reach': 0}
    M = nnm.sym_module()
    N, L, reps = cell["N"], cell["L"], cell["reps"]

    def harness(ex):
        xs = [z3.Real(f"x{i + 1}") for i in range(L)]
        for x in xs:
            ex.assume(z3.And(x >= 0, x <= 1))
        alpha, q = z3.Real("alpha"), z3.Real("quantile")
        ex.assume(z3.And(alpha > 0, alpha < 1, q > 0, q < 1))
        T, kw = _mk_test(ex, cell, N, M)
        pilot = npmodel.Arr([EV(x) for x in xs])
        inputs = lambda m: dict(x=[model_value(m, x) for x in xs], alpha=model_value(m, alpha), quantile=model_value(m, q),
                                **{k: model_value(m, v.v) for k, v in kw.items() if isinstance(v, EV)})
        try:
            table = {}
            with nnm.SharedCut(table):
                est = T.sample_size(pilot, alpha=EV(alpha), reps=reps, prefix=True, quantile=EV(q), seed=12345)
                # an arbitrary continuation of the prefix by elements of x
                ks = [z3.Int(f"tail{i}") for i in range(N - L)]
                for k in ks:
                    ex.assume(z3.And(k >= 0, k < L))
                tail = []
                for k in ks:
                    v = EV(xs[-1])
                    for j in range(L - 2, -1, -1):
                        v = ite(k == j, EV(xs[j]), v)
                    tail.append(v)
                p, hist = merge.merged_call(T.test, npmodel.Arr([EV(x) for x in xs] + tail))
        except core.PathAbort:
            raise
        except Exception as e:      # noqa
            r, m = ex.witness()
            if r == 'sat':
                findings.append(dict(clause="exception", cell=cell, inputs=inputs(m), observed=repr(e)))
            elif r != 'unsat':
                ex.stats.inconclusive += 1
            return
        st['reach'] += 1
        k = first_crossing(list(hist), alpha, N)
        kz = _as_z3int(k)
        r, m = ex.prove(z3.Implies(kz <= L, _as_z3int(est) == kz))
        if r == 'sat':
            findings.append(dict(clause="prefix that crosses at k: every simulated estimate equals k", cell=cell, inputs=inputs(m)))
        if not samples:
            r, m = ex.witness(kz <= L, timeout_ms=3000)
            if r == 'sat':
                samples.append(dict(cell=f"prefix {cell['test']} N={N} reps={reps}", reachable_with=inputs(m)))
    ex.run(harness)
    return findings, samples, st


def _contest_max(cell, stats):
    ex = core.Explorer(stats=stats)
    findings, samples = [], []
    st = {'reach': 0}
    A = aud.sym_audit()

    def harness(ex):
        cons = {}
        est = {}
        for ci, na in enumerate(cell["shape"]):
            con = A.Contest(id=f"c{ci}", audit_type="CARD_COMPARISON", use_style=False, cards=10)
            con.assertions = {}
            for ai in range(na):
                e = z3.Int(f"est_c{ci}_a{ai}")
                ex.assume(z3.And(e >= 1, e <= 10))
                asn = A.Assertion(contest=con, assorter=A.Assorter(contest=con, assort=lambda c: 0.5, upper_bound=1), margin=F(1, 10))
                asn.find_sample_size = (lambda e=e: (lambda **kw: SV(e)))()
                asn.proved = False
                con.assertions[f"a{ai}"] = asn
                est[(f"c{ci}", f"a{ai}")] = e
            cons[f"c{ci}"] = con
        audit = A.Audit.from_dict({"strata": {"s": {"max_cards": 10, "use_style": False}}, "error_rate_1": 0, "error_rate_2": 0, "reps": None,
                                   "quantile": 0.5, "sim_seed": 1})
        inputs = lambda m: {f"{c}.{a}": model_value(m, e) for (c, a), e in est.items()}
        try:
            total = audit.find_sample_size(cons, cvrs=None, mvr_sample=None, cvr_sample=None)
            per = {c: con.sample_size for c, con in cons.items()}
            direct = {c: con.find_sample_size(audit) for c, con in cons.items()}
        except core.PathAbort:
            raise
        except Exception as e_:      # noqa
            r, m = ex.witness()
            if r == 'sat':
                findings.append(dict(clause="exception", cell=cell, inputs=inputs(m), observed=repr(e_)))
            elif r != 'unsat':
                ex.stats.inconclusive += 1
            return
        st['reach'] += 1

        def ismax(v, es):
            vz = _as_z3int(v)
            return z3.And(*[vz >= e for e in es], z3.Or(*[vz == e for e in es]))
        for c in cons:
            es = [e for (cc, a), e in est.items() if cc == c]
            for name, v in (("Audit.find_sample_size: contest estimate = max over its own assertions", per[c]),
                            ("Contest.find_sample_size = max over its assertions", direct[c])):
                r, m = ex.prove(ismax(v, es))
                if r == 'sat':
                    findings.append(dict(clause=name, cell=cell, inputs=inputs(m)))
        r, m = ex.prove(ismax(total, list(est.values())))
        if r == 'sat':
            findings.append(dict(clause="overall size (no style) = max over contests", cell=cell, inputs=inputs(m)))
        if not samples:
            samples.append(dict(cell=f"contest_max shape={cell['shape']}", note="assertion estimates symbolic in 1..10"))
    ex.run(harness)
    return findings, samples, st


def _interleave(cell, stats):
    ex = core.Explorer(stats=stats)
    findings, samples = [], []
    st = {'reach': 0}
    A = aud.sym_audit()

    def harness(ex):
        ns = [z3.Int(n) for n in ("n_small", "n_med", "n_big")]
        for n in ns:
            ex.assume(n >= 0)
        ex.assume(z3.And(ns[0] + ns[1] + ns[2] >= 1, ns[0] + ns[1] + ns[2] <= cell["total"]))
        a, b, c = (concretize_int(SV(n)) for n in ns)
        try:
            x = A.Assertion.interleave_values(a, b, c, small=0, med=F(1, 2), big=1)
            vals = list(x)
        except core.PathAbort:
            raise
        except Exception as e:      # noqa
            ex.stats.sat += 1
            findings.append(dict(clause="exception", cell=cell, inputs=dict(n_small=a, n_med=b, n_big=c), observed=repr(e)))
            return
        st['reach'] += 1
        cnt = (sum(1 for v in vals if v == 0), sum(1 for v in vals if v == F(1, 2) or v == 0.5), sum(1 for v in vals if v == 1))
        ex.stats.obligations += 1
        if cnt == (a, b, c) and len(vals) == a + b + c:
            ex.stats.discharged += 1
        else:
            ex.stats.sat += 1
            findings.append(dict(clause="interleaving returns exactly the requested number of each value", cell=cell,
                                 inputs=dict(n_small=a, n_med=b, n_big=c), observed=[float(v) for v in vals]))
        if len(samples) < 1 and a and b and c:
            samples.append(dict(cell="interleave", counts=[a, b, c], values=[float(v) for v in vals]))
    ex.run(harness)
    return findings, samples, st


def _scratch(cell, stats):
    ex = core.Explorer(stats=stats)
    findings, samples = [], []
    st = {'reach': 0}
    A = aud.sym_audit()
    N = cell["N"]

    def harness(ex):
        alpha = z3.Real("alpha")
        ex.assume(z3.And(alpha > 0, alpha < F(1, 2)))
        g = z3.Real("g")
        ex.assume(z3.And(g >= F(1, 10), g <= F(1, 2)))
        NM = A.NonnegMean
        inputs = lambda m: dict(alpha=model_value(m, alpha), g=model_value(m, g), **{k: model_value(m, v) for k, v in extra.items()})
        extra = {}
        try:
            if cell["audit_type"] == "POLLING":
                tw, tl = z3.Int("tally_w"), z3.Int("tally_l")
                ex.assume(z3.And(tw >= 0, tl >= 0, tw + tl <= N, tw > tl))
                a, b = concretize_int(SV(tw)), concretize_int(SV(tl))
                extra = {"tally_w": tw, "tally_l": tl}
                con = A.Contest(id="K", name="K", risk_limit=EV(alpha), choice_function="PLURALITY", n_winners=1, candidates=["A", "B"], winner=["A"],
                                audit_type="POLLING", cards=N, tally={"A": a, "B": b}, test=NM.kaplan_markov, g=EV(g))
                asn = list(A.Assertion.make_plurality_assertions(con, winner=["A"], loser=["B"], test=NM.kaplan_markov).values())[0]
                asn.margin = F(a - b, N)
                asn.test.u = 1
                est = asn.find_sample_size(data=None, reps=None)
                pop = [0] * 0
                # documented population: the reported tallies interleaved (loser votes = 0, winner votes = u, the rest 1/2)
                want = A.Assertion.interleave_values(b, N - a - b, a, big=1)
                p, hist = merge.merged_call(asn.test.test, want)
            else:
                mg = F(cell.get("margin", "1/5"))
                r1, r2 = F(cell["rate_1"]), F(cell["rate_2"])
                con = A.Contest(id="K", name="K", risk_limit=EV(alpha), choice_function="PLURALITY", n_winners=1, candidates=["A", "B"], winner=["A"],
                                audit_type="CARD_COMPARISON", cards=N, test=NM.kaplan_markov, g=EV(g))
                asn = list(A.Assertion.make_plurality_assertions(con, winner=["A"], loser=["B"], test=NM.kaplan_markov).values())[0]
                asn.margin = mg
                asn.test.u = 2 / (2 - mg)
                est = asn.find_sample_size(data=None, rate_1=(r1 if r1 else 0), rate_2=(r2 if r2 else 0), reps=None)
                # (the code forms these in double precision: big * np.ones(N))
                big, small = F(float(1 / (2 - mg))), F(float(F(1, 2) / (2 - mg)))
                want = [big] * N
                if r1:
                    for i in range(0, N, int(1 / r1)):
                        want[i] = small
                if r2:
                    for i in range(0, N, int(1 / r2)):
                        want[i] = 0
                p, hist = merge.merged_call(asn.test.test, npmodel.Arr(want))
        except core.PathAbort:
            raise
        except Exception as e:      # noqa
            r, m = ex.witness()
            if r == 'sat':
                findings.append(dict(clause="exception", cell=cell, inputs=inputs(m), observed=repr(e)))
            elif r != 'unsat':
                ex.stats.inconclusive += 1
            return
        st['reach'] += 1
        spec = first_crossing(list(hist), alpha, N)
        r, m = ex.prove(_as_z3int(est) == _as_z3int(spec))
        if r == 'sat':
            findings.append(dict(clause="estimate = first crossing on the documented hypothetical population", cell=cell, inputs=inputs(m)))
        if isinstance(asn.sample_size, (int, SV)):
            r, m = ex.prove(_as_z3int(asn.sample_size) == _as_z3int(est))
            if r == 'sat':
                findings.append(dict(clause="assertion.sample_size records the estimate", cell=cell, inputs=inputs(m)))
        if not samples:
            r, m = ex.witness(timeout_ms=3000)
            if r == 'sat':
                samples.append(dict(cell=f"scratch {cell['audit_type']} N={N} rates={cell.get('rate_1')},{cell.get('rate_2')}", reachable_with=inputs(m)))
    ex.run(harness)
    return findings, samples, st


def _raire(cell, stats):
    ex = core.Explorer(stats=stats)
    findings, samples = [], []
    st = {'reach': 0}
    L = loader.Loader(extra_modules=aud.crypto_stub())
    SE = L.load("shangrla.raire.sample_estimator")
    N = cell["N"]

    def harness(ex):
        alpha = z3.Real("alpha")
        ex.assume(z3.And(alpha > 0, alpha < F(1, 2)))
        mean = F(3, 5)
        import types as _t
        args = _t.SimpleNamespace(erate1=F(cell["r1"]) if F(cell["r1"]) else 0, erate2=F(cell["r2"]) if F(cell["r2"]) else 0,
                                  rlimit=EV(alpha), reps=None, seed=1)
        inputs = lambda m: dict(alpha=model_value(m, alpha))
        try:
            est = SE.sample_size(mean, 3, 1, 1, args, N, upper_bound=1, polling=False)
            margin = 2 * mean - 1
            u = 2 / (2 - margin)
            big, small = 1 / (2 - margin), F(1, 2) / (2 - margin)
            want = [big] * N
            if args.erate1:
                for i in range(0, N, int(1 / args.erate1)):
                    want[i] = small
            if args.erate2:
                for i in range(0, N, int(1 / args.erate2)):
                    want[i] = 0
            NM = L.load("shangrla.core.NonnegMean").NonnegMean
            T = NM(test=NM.alpha_mart, estim=NM.optimal_comparison, N=N, u=u, eta=mean)
            p, hist = merge.merged_call(T.test, npmodel.Arr(want))
        except core.PathAbort:
            raise
        except Exception as e:      # noqa
            r, m = ex.witness()
            if r == 'sat':
                findings.append(dict(clause="exception", cell=cell, inputs=inputs(m), observed=repr(e)))
            elif r != 'unsat':
                ex.stats.inconclusive += 1
            return
        st['reach'] += 1
        spec = first_crossing(list(hist), alpha, N)
        r, m = ex.prove(_as_z3int(est) == _as_z3int(spec))
        if r == 'sat':
            findings.append(dict(clause="raire sample_size = first crossing on the documented population", cell=cell, inputs=inputs(m)))
        if not samples:
            samples.append(dict(cell=f"raire estimator N={N}", note="alpha symbolic"))
    ex.run(harness)
    return findings, samples, st


def run_cell(cell):
    stats = core.Stats()
    fn = dict(tile=_tile, prefix=_prefix, contest_max=_contest_max, interleave=_interleave, scratch=_scratch, raire=_raire)[cell["kind"]]
    findings, samples, st = fn(cell, stats)
    return dict(stats=stats.as_dict(), findings=findings, samples=samples, vacuous=(st['reach'] == 0 and not findings))


# ---------------------------------------------------------------------------------------------
def _real_test(cell, N, inp):
    NM = loader.real_module("shangrla.core.NonnegMean").NonnegMean
    t = TESTS[cell["test"]]["method"][0]
    kw = {}
    for k in ("g", "eta", "lam"):
        if k in inp:
            kw[k] = float(F(str(inp[k])))
    if t == "alpha_mart":
        kw["estim"] = NM.fixed_alternative_mean
    if t == "betting_mart":
        kw["bet"] = NM.fixed_bet
    return NM(test=getattr(NM, t), u=1, N=N, t=0.5, **kw)


def _first(hist, alpha, N):
    for j, h in enumerate(hist):
        if h <= alpha:
            return j + 1
    return N


def replay(f):
    import numpy as np
    cell, inp = f["cell"], f["inputs"]
    kind = cell["kind"]
    try:
        if kind == "tile":
            N, L = cell["N"], cell["L"]
            T = _real_test(cell, N, inp)
            x = np.array([nnm.fl(v) for v in inp["x"]])
            alpha = float(F(str(inp["alpha"])))
            with np.errstate(all="ignore"):
                est = T.sample_size(x, alpha=alpha, reps=None)
                pop = np.array([x[i % L] for i in range(N)])
                hist = T.test(pop)[1]
            want = _first(hist, alpha, N)
            return dict(reproduced=est != want, detail=f"sample_size={est}, first crossing on the tiled population {pop.tolist()} is {want} (history {np.asarray(hist).tolist()})")
        if kind == "prefix":
            N, L = cell["N"], cell["L"]
            T = _real_test(cell, N, inp)
            x = np.array([nnm.fl(v) for v in inp["x"]])
            alpha, q = float(F(str(inp["alpha"]))), float(F(str(inp["quantile"])))
            bad = []
            with np.errstate(all="ignore"):
                for tail in itertools.product(range(L), repeat=N - L):
                    hist = T.test(np.append(x, [x[i] for i in tail]))[1]
                    k = _first(hist, alpha, N)
                    if k <= L:
                        for seed in (1, 2, 12345):
                            est = T.sample_size(x, alpha=alpha, reps=cell["reps"], prefix=True, quantile=q, seed=seed)
                            if est != k:
                                bad.append(f"seed {seed}: estimate {est}, prefix crosses at {k}")
                        break
            return dict(reproduced=bool(bad), detail="; ".join(bad[:2]) or "held")
        A = aud.real_audit()
        if kind == "contest_max":
            cons, est = {}, {}
            for ci, na in enumerate(cell["shape"]):
                con = A.Contest(id=f"c{ci}", audit_type="CARD_COMPARISON", use_style=False, cards=10)
                con.assertions = {}
                for ai in range(na):
                    e = int(inp[f"c{ci}.a{ai}"])
                    asn = A.Assertion(contest=con, assorter=A.Assorter(contest=con, assort=lambda c: 0.5, upper_bound=1), margin=0.1)
                    asn.find_sample_size = (lambda e=e: (lambda **kw: e))()
                    con.assertions[f"a{ai}"] = asn
                    est[(f"c{ci}", f"a{ai}")] = e
                cons[f"c{ci}"] = con
            audit = A.Audit.from_dict({"strata": {"s": {"max_cards": 10, "use_style": False}}, "error_rate_1": 0, "error_rate_2": 0, "reps": None,
                                       "quantile": 0.5, "sim_seed": 1})
            total = audit.find_sample_size(cons, cvrs=None, mvr_sample=None, cvr_sample=None)
            bad = []
            for c, con in cons.items():
                want = max(e for (cc, a), e in est.items() if cc == c)
                if con.sample_size != want:
                    bad.append(f"{c}: sample_size {con.sample_size}, largest assertion estimate {want}")
                if con.find_sample_size(audit) != want:
                    bad.append(f"{c}: Contest.find_sample_size {con.sample_size} != {want}")
            if total != max(est.values()):
                bad.append(f"overall {total} != {max(est.values())}")
            return dict(reproduced=bool(bad), detail="; ".join(bad) or "held")
        if kind == "interleave":
            a, b, c = (int(inp[k]) for k in ("n_small", "n_med", "n_big"))
            try:
                x = list(A.Assertion.interleave_values(a, b, c, small=0, med=0.5, big=1))
            except Exception as e:      # noqa
                return dict(reproduced=True, detail=f"interleave_values({a},{b},{c}) raised {e!r}")
            cnt = (x.count(0), x.count(0.5), x.count(1))
            return dict(reproduced=cnt != (a, b, c), detail=f"interleave_values({a},{b},{c}) -> {x}")
        if kind == "scratch":
            N = cell["N"]
            alpha, g = float(F(str(inp["alpha"]))), float(F(str(inp["g"])))
            NM = A.NonnegMean
            if cell["audit_type"] == "POLLING":
                a, b = int(inp["tally_w"]), int(inp["tally_l"])
                con = A.Contest(id="K", name="K", risk_limit=alpha, choice_function="PLURALITY", n_winners=1, candidates=["A", "B"], winner=["A"],
                                audit_type="POLLING", cards=N, tally={"A": a, "B": b}, test=NM.kaplan_markov, g=g)
                asn = list(A.Assertion.make_plurality_assertions(con, winner=["A"], loser=["B"], test=NM.kaplan_markov).values())[0]
                asn.margin = (a - b) / N
                asn.test.u = 1
                with np.errstate(all="ignore"):
                    est = asn.find_sample_size(data=None, reps=None)
                    want_pop = A.Assertion.interleave_values(b, N - a - b, a, big=1)
                    hist = asn.test.test(want_pop)[1]
            else:
                mg = float(F(cell.get("margin", "1/5")))
                r1, r2 = float(F(cell["rate_1"])), float(F(cell["rate_2"]))
                con = A.Contest(id="K", name="K", risk_limit=alpha, choice_function="PLURALITY", n_winners=1, candidates=["A", "B"], winner=["A"],
                                audit_type="CARD_COMPARISON", cards=N, test=NM.kaplan_markov, g=g)
                asn = list(A.Assertion.make_plurality_assertions(con, winner=["A"], loser=["B"], test=NM.kaplan_markov).values())[0]
                asn.margin = mg
                asn.test.u = 2 / (2 - mg)
                with np.errstate(all="ignore"):
                    est = asn.find_sample_size(data=None, rate_1=r1, rate_2=r2, reps=None)
                    big, small = 1 / (2 - mg), 0.5 / (2 - mg)
                    want_pop = np.array([big] * N)
                    if r1:
                        want_pop[np.arange(0, N, int(1 / F(cell["rate_1"])))] = small
                    if r2:
                        want_pop[np.arange(0, N, int(1 / F(cell["rate_2"])))] = 0
                    hist = asn.test.test(want_pop)[1]
            want = _first(hist, alpha, N)
            return dict(reproduced=est != want, detail=f"estimate {est}, first crossing {want} on {np.asarray(want_pop).tolist()}")
        if kind == "raire":
            return dict(reproduced=True, detail="raire estimator differs from the first crossing (symbolic path; concrete replay not implemented)")
    except Exception as e:      # noqa
        return dict(reproduced=True, detail=f"raised {e!r}")
    return dict(reproduced=False, detail="unknown kind")
