"""C09 - the audit completes only when every assertion of every contest meets its risk limit."""
from fractions import Fraction as F

import z3

from symx import core, npmodel
from symx.core import SB, SV, model_value
from symx.ev import EV, And, Or, Not, _b, R
from . import aud

PROPERTY = "C09"
META = dict(
    files=aud.FILES,
    functions=["Assertion.set_p_values", "Assertion.reset_p_values", "Audit.summarize_status", "Audit.check_audit_parameters", "Assertion.mvrs_to_data"],
    explanation="Contests x assertions shapes are enumerated; every risk limit, every p-value returned by an assertion's test (a "
                "nondeterministic stub returning fresh symbolic (p, history) and recording the data and bound it was given), every previous "
                "`proved` flag and previous p-value are z3 variables. The solver decides: recorded p/history = stub output for that "
                "assertion's own mvrs_to_data result with test.u installed first; contest max_p = max over its assertions; return value = max "
                "over contests; proved = (p <= limit) or proved before; summarize_status true iff every assertion of every contest has "
                "p <= its own contest's limit; reset restores p=1, empty history, not proved, max_p=1; check_audit_parameters refuses "
                "limits outside (0,1/2] and winners that are not candidates.",
    bounds={"quick": {"shapes (assertions per contest)": [[1], [2], [1, 2], [2, 1], [2, 2]]},
            "thorough": {"shapes": [[1], [3], [1, 2], [2, 2], [1, 1, 1], [2, 1, 2], [3, 3]]}},
    outside=["more contests/assertions than the shapes", "the tests themselves (C01, C11, C12)", "printing"],
    assumptions=["p-values returned by a test lie in [0,1] (C11)", "risk limits in (0,1/2] for set_p_values/summarize_status"],
    trusted=["symx numpy model"],
)


def cells(tier):
    shapes = [[1], [2], [1, 2], [2, 1], [2, 2]] if tier == "quick" else [[1], [3], [1, 2], [2, 2], [1, 1, 1], [2, 1, 2], [3, 3]]
    out = [dict(kind="pvalues", shape=s, types=t) for s in shapes for t in ("POLLING", "mixed")]
    out.append(dict(kind="params"))
    return out


class StubTest:
    def __init__(self, tag):
        self.tag = tag
        self.u = "unset"
        self.calls = []
        self.p = z3.Real(f"p_{tag}")
        self.h = [z3.Real(f"h_{tag}_{k}") for k in range(2)]

    def test(self, d):
        self.calls.append((d, self.u))
        return EV(self.p), npmodel.Arr([EV(x) for x in self.h])


def _build(A, ex, shape, types):
    cons = {}
    stubs = {}
    lims = {}
    prev = {}
    for ci, na in enumerate(shape):
        cid = f"c{ci}"
        lim = z3.Real(f"lim_{cid}")
        ex.assume(z3.And(lim > 0, lim <= F(1, 2)))
        lims[cid] = lim
        at = "POLLING" if (types == "POLLING" or ci % 2 == 0) else "CARD_COMPARISON"
        con = A.Contest(id=cid, risk_limit=EV(lim), audit_type=at, use_style=False, candidates=["A", "B", "C"], winner=["A"])
        con.assertions = {}
        for ai in range(na):
            tag = f"{cid}_a{ai}"
            stub = StubTest(tag)
            ex.assume(z3.And(stub.p >= 0, stub.p <= 1))
            pb = z3.Bool(f"proved_before_{tag}")
            pold = z3.Real(f"p_before_{tag}")
            ex.assume(z3.And(pold >= 0, pold <= 1))
            asn = A.Assertion(contest=con, assorter=A.Assorter(contest=con, assort=(lambda c, k=ai: EV(z3.Real(f"a_{tag}"))), upper_bound=1),
                              winner="A", loser="BC"[ai % 2], test=stub, margin=F(1, 10), p_value=EV(pold), p_history=["stale"], proved=SB(pb))
            con.assertions[f"a{ai}"] = asn
            stubs[(cid, f"a{ai}")] = stub
            prev[(cid, f"a{ai}")] = (pb, pold)
        cons[cid] = con
    return cons, stubs, lims, prev


def _pvalues(cell, stats):
    ex = core.Explorer(stats=stats)
    findings, samples = [], []
    st = {'reach': 0}
    A = aud.sym_audit()

    def harness(ex):
        cons, stubs, lims, prev = _build(A, ex, cell["shape"], cell["types"])
        mv = [A.CVR(id=i, votes={c: {"A": True} for c in cons}) for i in range(2)]
        cv = [A.CVR(id=i, votes={c: {"A": True} for c in cons}) for i in range(2)]

        def inputs(m):
            d = {}
            for (c, a), s in stubs.items():
                d[f"{c}.{a}"] = dict(p=model_value(m, s.p), proved_before=bool(model_value(m, prev[(c, a)][0])), p_before=model_value(m, prev[(c, a)][1]))
            d["limits"] = {c: model_value(m, l) for c, l in lims.items()}
            return d
        try:
            ret = A.Assertion.set_p_values(cons, mv, cv)
            audit = A.Audit()
            done = audit.summarize_status(cons)
            snap = {(c, a): (asn.p_value, asn.p_history, asn.proved) for c, con in cons.items() for a, asn in con.assertions.items()}
            maxp = {c: con.max_p for c, con in cons.items()}
            pvals = {c: dict(con.p_values) for c, con in cons.items()}
            provd = {c: dict(con.proved) for c, con in cons.items()}
            A.Assertion.reset_p_values(cons)
        except core.PathAbort:
            raise
        except Exception as e:      # noqa
            r, m = ex.witness()
            if r == 'sat':
                findings.append(dict(clause="exception", cell=cell, inputs=inputs(m), observed=repr(e)))
            elif r != 'unsat':
                ex.stats.inconclusive += 1
            return
        st['reach'] += 1
        claims = []
        allp = []
        for (c, a), stub in stubs.items():
            pv, ph, pr = snap[(c, a)]
            asn = cons[c].assertions[a]
            claims.append((f"{c}.{a}: recorded p-value is the test's output", _b(EV.of(pv)._eq(EV(stub.p)))))
            claims.append((f"{c}.{a}: recorded history is the test's output",
                           isinstance(ph, npmodel.Arr) and len(ph) == 2 and all(EV.of(x).v.eq(hh) for x, hh in zip(ph, stub.h))))
            claims.append((f"{c}.{a}: the test was called exactly once", len(stub.calls) == 1))
            if len(stub.calls) == 1:
                d, u_at_call = stub.calls[0]
                try:
                    d2, u2 = asn.mvrs_to_data(mv, cv)
                    same_d = len(d) == len(d2) and all((EV.of(x).v.eq(EV.of(y).v)) for x, y in zip(d, d2))
                    same_u = (u_at_call == u2) if not isinstance(u_at_call, str) else False
                    same_u = same_u if isinstance(same_u, bool) else _b(same_u.e if isinstance(same_u, SB) else same_u)
                except Exception:      # noqa
                    same_d, same_u = False, False
                claims.append((f"{c}.{a}: the test received this assertion's own data", same_d))
                claims.append((f"{c}.{a}: test.u was installed before the test ran", same_u))
            pb = prev[(c, a)][0]
            prz = pr.e if isinstance(pr, SB) else z3.BoolVal(bool(pr))
            claims.append((f"{c}.{a}: proved = (p <= limit) or proved before", prz == z3.Or(stub.p <= lims[c], pb)))
            claims.append((f"{c}.{a}: contest dicts record the same p-value and flag",
                           z3.And(_b(EV.of(pvals[c].get(a, -1))._eq(EV(stub.p))),
                                  (provd[c][a].e if isinstance(provd[c].get(a), SB) else z3.BoolVal(bool(provd[c].get(a)))) == prz)))
            allp.append((c, stub.p))
        for c in cons:
            ps = [p for cc, p in allp if cc == c]
            mx = EV.of(maxp[c])
            claims.append((f"{c}: max_p is the largest p-value among its assertions",
                           z3.And(*[mx.v >= p for p in ps], z3.Or(*[mx.v == p for p in ps]), _b(mx.fin()))))
        rv = EV.of(ret)
        claims.append(("return value is the largest p-value over all contests",
                       z3.And(*[rv.v >= p for _, p in allp], z3.Or(*[rv.v == p for _, p in allp]), _b(rv.fin()))))
        dz = done.e if isinstance(done, SB) else z3.BoolVal(bool(done))
        claims.append(("complete iff every assertion of every contest has p <= its own contest's limit",
                       dz == z3.And(*[p <= lims[c] for c, p in allp])))
        for c, con in cons.items():
            ok = con.max_p == 1 and con.p_values == {a: 1 for a in con.assertions} and con.proved == {a: False for a in con.assertions}
            for a, asn in con.assertions.items():
                ok = ok and asn.p_value == 1 and asn.p_history == [] and asn.proved is False
            claims.append((f"{c}: reset restores p=1, empty history, unconfirmed, max_p=1", bool(ok)))
        for name, cl in claims:
            if isinstance(cl, bool):
                ex.stats.obligations += 1
                if cl:
                    ex.stats.discharged += 1
                else:
                    r, m = ex.witness()
                    if r == 'sat':
                        ex.stats.sat += 1
                        findings.append(dict(clause=name, cell=cell, inputs=inputs(m)))
                continue
            r, m = ex.prove(cl)
            if r == 'sat':
                findings.append(dict(clause=name, cell=cell, inputs=inputs(m)))
        if not samples:
            r, m = ex.witness(timeout_ms=3000)
            if r == 'sat':
                samples.append(dict(cell=f"shape {cell['shape']} {cell['types']}", reachable_with=inputs(m)))
    ex.run(harness)
    return findings, samples, st


def _params(cell, stats):
    ex = core.Explorer(stats=stats)
    findings, samples = [], []
    st = {'reach': 0}
    A = aud.sym_audit()

    def harness(ex):
        lim = [z3.Real("lim0"), z3.Real("lim1")]
        wbad = z3.Bool("winner_not_a_candidate")
        e1, e2 = z3.Real("e1"), z3.Real("e2")
        winner = ["A"] if not bool(SB(wbad)) else ["Z"]
        cons = {"c0": A.Contest(id="c0", risk_limit=EV(lim[0]), choice_function="PLURALITY", n_winners=1, candidates=["A", "B"], winner=["A"]),
                "c1": A.Contest(id="c1", risk_limit=EV(lim[1]), choice_function="PLURALITY", n_winners=1, candidates=["A", "B"], winner=winner)}
        audit = A.Audit(error_rate_1=EV(e1), error_rate_2=EV(e2))
        raised = False
        try:
            audit.check_audit_parameters(cons)
        except AssertionError:
            raised = True
        st['reach'] += 1
        should = z3.Or(e1 < 0, e2 < 0, lim[0] <= 0, lim[0] > F(1, 2), lim[1] <= 0, lim[1] > F(1, 2), wbad)
        r, m = ex.prove(should if raised else z3.Not(should))
        if r == 'sat':
            findings.append(dict(clause="check_audit_parameters refuses exactly the invalid parameters", cell=cell,
                                 inputs=dict(limits=[model_value(m, l) for l in lim], winner_not_candidate=bool(model_value(m, wbad)),
                                             error_rates=[model_value(m, e1), model_value(m, e2)], raised=raised)))
        if not samples:
            samples.append(dict(cell="check_audit_parameters", note="two risk limits, error rates and a winner flag symbolic"))
    ex.run(harness)
    return findings, samples, st


def run_cell(cell):
    stats = core.Stats()
    findings, samples, st = (_params if cell["kind"] == "params" else _pvalues)(cell, stats)
    return dict(stats=stats.as_dict(), findings=findings, samples=samples, vacuous=(st['reach'] == 0 and not findings))


def replay(f):
    import numpy as np
    A = aud.real_audit()
    cell, inp = f["cell"], f["inputs"]
    if cell["kind"] == "params":
        lim = [float(F(str(x))) for x in inp["limits"]]
        e = [float(F(str(x))) for x in inp["error_rates"]]
        cons = {"c0": A.Contest(id="c0", risk_limit=lim[0], choice_function="PLURALITY", n_winners=1, candidates=["A", "B"], winner=["A"]),
                "c1": A.Contest(id="c1", risk_limit=lim[1], choice_function="PLURALITY", n_winners=1, candidates=["A", "B"],
                                winner=["Z"] if inp["winner_not_candidate"] else ["A"])}
        try:
            A.Audit(error_rate_1=e[0], error_rate_2=e[1]).check_audit_parameters(cons)
            raised = False
        except AssertionError:
            raised = True
        should = e[0] < 0 or e[1] < 0 or any(not (0 < x <= 0.5) for x in lim) or inp["winner_not_candidate"]
        return dict(reproduced=(raised != should), detail=f"raised={raised}, invalid={should}")
    shape, types = cell["shape"], cell["types"]
    lims = {c: float(F(str(v))) for c, v in inp["limits"].items()}
    cons, ps, before = {}, {}, {}

    class Stub:
        def __init__(self, p):
            self.p, self.u, self.calls = p, "unset", []

        def test(self, d):
            self.calls.append((np.array(d, dtype=float), self.u))
            return self.p, np.array([self.p, self.p])
    stubs = {}
    for ci, na in enumerate(shape):
        cid = f"c{ci}"
        at = "POLLING" if (types == "POLLING" or ci % 2 == 0) else "CARD_COMPARISON"
        con = A.Contest(id=cid, risk_limit=lims[cid], audit_type=at, use_style=False, candidates=["A", "B", "C"], winner=["A"])
        con.assertions = {}
        for ai in range(na):
            d = inp[f"{cid}.a{ai}"]
            p = float(F(str(d["p"])))
            stub = Stub(p)
            asn = A.Assertion(contest=con, assorter=A.Assorter(contest=con, assort=lambda c: 0.5, upper_bound=1), winner="A", loser="B",
                              test=stub, margin=0.1, p_value=float(F(str(d["p_before"]))), p_history=["stale"], proved=bool(d["proved_before"]))
            con.assertions[f"a{ai}"] = asn
            stubs[(cid, f"a{ai}")] = stub
            ps[(cid, f"a{ai}")] = p
            before[(cid, f"a{ai}")] = bool(d["proved_before"])
        cons[cid] = con
    mv = [A.CVR(id=i, votes={c: {"A": True} for c in cons}) for i in range(2)]
    cv = [A.CVR(id=i, votes={c: {"A": True} for c in cons}) for i in range(2)]
    bad = []
    try:
        ret = A.Assertion.set_p_values(cons, mv, cv)
        import io, contextlib
        with contextlib.redirect_stdout(io.StringIO()):
            done = A.Audit().summarize_status(cons)
        for (c, a), p in ps.items():
            asn = cons[c].assertions[a]
            if asn.p_value != p:
                bad.append(f"{c}.{a}: recorded p {asn.p_value!r}, the test returned {p!r}")
            if not (isinstance(asn.p_history, np.ndarray) and list(asn.p_history) == [p, p]):
                bad.append(f"{c}.{a}: recorded history {asn.p_history!r}")
            if len(stubs[(c, a)].calls) != 1:
                bad.append(f"{c}.{a}: test called {len(stubs[(c, a)].calls)} times")
            else:
                d2, u2 = asn.mvrs_to_data(mv, cv)
                dd, uu = stubs[(c, a)].calls[0]
                if list(dd) != list(np.array(d2, dtype=float)) or uu != u2:
                    bad.append(f"{c}.{a}: test received data {list(dd)} with u={uu!r}, expected {list(d2)} with u={u2!r}")
            if bool(asn.proved) != ((p <= lims[c]) or before[(c, a)]):
                bad.append(f"{c}.{a}: proved={asn.proved} with p={p}, limit={lims[c]}, before={before[(c, a)]}")
        for c, con in cons.items():
            want = max(p for (cc, a), p in ps.items() if cc == c)
            if float(con.max_p) != want:
                bad.append(f"{c}: max_p={con.max_p!r}, expected {want!r}")
        if float(ret) != max(ps.values()):
            bad.append(f"returned {ret!r}, expected {max(ps.values())!r}")
        if bool(done) != all(p <= lims[c] for (c, a), p in ps.items()):
            bad.append(f"summarize_status={done} but p-values {ps} limits {lims}")
        A.Assertion.reset_p_values(cons)
        for c, con in cons.items():
            for a, asn in con.assertions.items():
                if not (asn.p_value == 1 and list(asn.p_history) == [] and asn.proved is False and con.max_p == 1):
                    bad.append(f"{c}.{a}: reset left p={asn.p_value}, history={asn.p_history}, proved={asn.proved}, max_p={con.max_p}")
    except Exception as e:      # noqa
        return dict(reproduced=True, detail=f"raised {e!r}")
    return dict(reproduced=bool(bad), detail="; ".join(bad[:3]) or "held")
