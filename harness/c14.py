"""C14 - RAIRE and the audit interpret every ranked ballot identically."""
import itertools
import types
from fractions import Fraction as F

import z3

from symx import core, loader, merge
from symx.core import SB, SV, model_value, concretize_int
from symx.ev import EV, And, Or, Not, _b, R
from . import aud

PROPERTY = "C14"
META = dict(
    files=["shangrla/core/Audit.py", "shangrla/raire/raire_utils.py", "shangrla/raire/raire.py"],
    functions=["Assertion.make_assertions_from_json", "Assorter.assort", "CVR.rcv_lfunc_wo", "CVR.rcv_votefor_cand", "CVR.get_vote_for",
               "NEBAssertion.is_vote_for_winner/loser", "NENAssertion.is_vote_for_winner/loser", "vote_for_cand", "ranking",
               "CVR.from_raire", "load_contests_from_raire"],
    explanation="One symbolic ballot (a partial ranking: position of each candidate or -1, ranked positions a duplicate-free prefix) is "
                "presented 0-based to the generator's predicates and 1-based to the audit's assorter built by make_assertions_from_json, "
                "through the same z3 variables; for every (winner, loser, eliminated set) the solver decides assort = (w - l + 1)/2. "
                "Candidate identifier sets include identifiers that are substrings of one another. The two readers of the RAIRE format are "
                "run on the same file whose ballot ids and rankings are chosen by the solver. (The re-application clause is part of the C04 harness.)",
    bounds={"quick": {"candidates": 3, "identifier sets": [["A", "B", "C"], ["1", "10", "2"]]},
            "thorough": {"candidates": "3, 4 and 5", "identifier sets": [["A", "B", "C"], ["1", "10", "2"], ["1", "2", "12", "21"]]}},
    outside=["ballots with repeated candidates or gaps in the ranks (excluded by the property)", "files with more than 3 ballot rows"],
    assumptions=["rankings are duplicate-free prefixes"],
    trusted=["symx builtins model"],
)

_L = None


def mods():
    global _L
    if _L is None:
        L = loader.Loader(extra_modules=aud.crypto_stub())
        _L = (L.load("shangrla.core.Audit"), L.load("shangrla.raire.raire_utils"))
    return _L


class SymBallot(dict):
    """generator-side ballot {candidate: 0-based position}; a candidate is present iff its position >= 0"""

    def __init__(self, idx):
        super().__init__()
        self.idx = idx

    def __contains__(self, k):
        return k in self.idx and bool(SB(self.idx[k] >= 0))

    def __getitem__(self, k):
        return SV(self.idx[k])

    def items(self):
        return [(k, SV(v)) for k, v in self.idx.items() if bool(SB(v >= 0))]

    def keys(self):
        return [k for k, v in self.idx.items() if bool(SB(v >= 0))]

    def __iter__(self):
        return iter(self.keys())

    def values(self):
        return [SV(v) for v in self.idx.values() if bool(SB(v >= 0))]

    def get(self, k, default=None):
        return self[k] if k in self else default

    def __len__(self):
        return len(self.keys())

    def __bool__(self):
        return len(self.keys()) > 0


def ballot_vars(ex, cands, tag="r"):
    idx = {c: z3.Int(f"{tag}_{c}") for c in cands}
    vs = list(idx.values())
    k = z3.Int(f"{tag}_len")
    ex.assume(z3.And(k >= 0, k <= len(cands)))
    for v in vs:
        ex.assume(z3.And(v >= -1, v < k))
    ex.assume(z3.Sum([z3.If(v >= 0, 1, 0) for v in vs]) == k)
    for a, b in itertools.combinations(vs, 2):
        ex.assume(z3.Or(a == -1, b == -1, a != b))
    return idx


def cells(tier):
    out = []
    sets = [["A", "B", "C"], ["1", "10", "2"]] + ([["1", "2", "12", "21"], ["A", "B", "C", "D", "E"]] if tier != "quick" else [])
    for cands in sets:
        for w, l in itertools.permutations(cands, 2):
            out.append(dict(kind="leaf", cands=cands, type="NEB", winner=w, loser=l, elim=[]))
            rest = [c for c in cands if c not in (w, l)]
            for r in range(len(rest) + 1):
                for E in itertools.combinations(rest, r):
                    out.append(dict(kind="leaf", cands=cands, type="NEN", winner=w, loser=l, elim=list(E)))
    for pat in ([0, 1, 0], [0, 0, 1]):
        out.append(dict(kind="readers", contests=pat))
    return out


def _leaf(cell, stats):
    ex = core.Explorer(stats=stats)
    findings, samples = [], []
    st = {'reach': 0}
    A, RU = mods()
    cands = cell["cands"]

    def harness(ex):
        idx = ballot_vars(ex, cands)
        inputs = lambda m: dict(ranking=[c for _, c in sorted((model_value(m, v), c) for c, v in idx.items() if model_value(m, v) >= 0)])
        try:
            gen = RU.NEBAssertion("c", cell["winner"], cell["loser"]) if cell["type"] == "NEB" else \
                RU.NENAssertion("c", cell["winner"], cell["loser"], list(cell["elim"]))
            gb = {"c": SymBallot(idx)}
            w = merge.merged_call(gen.is_vote_for_winner, gb)
            l = merge.merged_call(gen.is_vote_for_loser, gb)
            con = A.Contest(id="c", name="c", choice_function="IRV", n_winners=1, candidates=cands, winner=[cell["winner"]], cards=10)
            js = [{"winner": cell["winner"], "loser": cell["loser"],
                   "assertion_type": "WINNER_ONLY" if cell["type"] == "NEB" else "IRV_ELIMINATION",
                   "already_eliminated": "" if cell["type"] == "NEB" else list(cell["elim"])}]
            asn = list(A.Assertion.make_assertions_from_json(con, cands, js).values())[0]
            cvr = A.CVR(id=1, votes={"c": aud.PresDict({c: idx[c] >= 0 for c in cands}, {c: SV(idx[c] + 1) for c in cands})})
            val = merge.merged_call(asn.assorter.assort, cvr)
        except core.PathAbort:
            raise
        except Exception as e:      # noqa
            r, m = ex.witness()
            if r == 'sat':
                findings.append(dict(clause="exception", cell=cell, inputs=inputs(m), observed=repr(e)))
            elif r != 'unsat':
                ex.stats.inconclusive += 1
            return
        st['reach'] += 1
        wz = w.e if isinstance(w, SV) else z3.IntVal(int(w))
        lz = l.e if isinstance(l, SV) else z3.IntVal(int(l))
        v = EV.of(val)
        claim = _b(And(v.fin(), v.v == (z3.ToReal(wz) - z3.ToReal(lz) + 1) / 2))
        r, m = ex.prove(claim)
        if r == 'sat':
            findings.append(dict(clause="assorter value = (w - l + 1)/2 with the generator's verdicts", cell=cell, inputs=inputs(m)))
        r2, m2 = ex.prove(z3.And(wz >= 0, wz <= 1, lz >= 0, lz <= 1, z3.Not(z3.And(wz == 1, lz == 1))))
        if r2 == 'sat':
            findings.append(dict(clause="generator verdicts are 0/1 and not both 1", cell=cell, inputs=inputs(m2)))
        if not samples:
            r, m = ex.witness(timeout_ms=2000)
            if r == 'sat':
                samples.append(dict(cell=f"{cell['type']} {cell['winner']}>{cell['loser']} elim={cell['elim']} cands={cands}", reachable_with=inputs(m)))
    ex.run(harness)
    return findings, samples, st


RANK2 = [[], ["A"], ["B"], ["A", "B"], ["B", "A"]]


def _file(cell, choice):
    lines = ["2", "Contest,k0,2,A,B,winner,A", "Contest,k1,2,A,B,winner,B"]
    rows = [["2"], ["Contest", "k0", "2", "A", "B"], ["Contest", "k1", "2", "A", "B"]]
    for con, (bid, rk) in zip(cell["contests"], choice):
        rows.append([f"k{con}", f"b{bid}"] + RANK2[rk])
        lines.append(",".join([f"k{con}", f"b{bid}"] + RANK2[rk]))
    return lines, rows


def _readers(cell, stats):
    ex = core.Explorer(stats=stats)
    findings, samples = [], []
    st = {'reach': 0}
    holder = {}

    class _F:
        def __init__(self, name):
            self.name = name

        def __enter__(self):
            return self

        def __exit__(self, *a):
            return False

        def readlines(self):
            return [x + "\n" for x in holder[self.name]]
    L = loader.Loader(extra_modules=aud.crypto_stub(), extra_globals={"open": lambda name, *a, **k: _F(name)})
    A, RU = L.load("shangrla.core.Audit"), L.load("shangrla.raire.raire_utils")

    def harness(ex):
        choice = []
        for r in range(len(cell["contests"])):
            bid, rk = z3.Int(f"id{r}"), z3.Int(f"rank{r}")
            ex.assume(z3.And(bid >= 0, bid < 2, rk >= 0, rk < len(RANK2)))
            choice.append((concretize_int(SV(bid)), concretize_int(SV(rk))))
        lines, rows = _file(cell, choice)
        holder["f"] = lines
        try:
            cvrs, _ = A.CVR.from_raire(rows)
            contests, gen = RU.load_contests_from_raire("f")
        except core.PathAbort:
            raise
        except Exception as e:      # noqa
            ex.stats.sat += 1
            findings.append(dict(clause="exception", cell=cell, inputs=dict(choice=[list(c) for c in choice]), observed=repr(e)))
            return
        st['reach'] += 1
        audit_side = {c.id: {k: dict(v) for k, v in c.votes.items()} for c in cvrs}
        ok = set(audit_side) == set(gen)
        if ok:
            for bid, cons in gen.items():
                for cid, ballot in cons.items():
                    a = audit_side[bid].get(cid)
                    if a is None or {k: v - 1 for k, v in a.items()} != dict(ballot):
                        ok = False
        ex.stats.obligations += 1
        if ok:
            ex.stats.discharged += 1
        else:
            ex.stats.sat += 1
            findings.append(dict(clause="both readers assign the same preference order to every ballot (audit rank = generator position + 1)",
                                 cell=cell, inputs=dict(choice=[list(c) for c in choice]), observed=dict(audit=audit_side, generator={k: dict(v) for k, v in gen.items()})))
        if not samples:
            samples.append(dict(cell="readers", file=lines, audit=audit_side))
    ex.run(harness)
    return findings, samples, st


def run_cell(cell):
    stats = core.Stats()
    findings, samples, st = (_leaf if cell["kind"] == "leaf" else _readers)(cell, stats)
    return dict(stats=stats.as_dict(), findings=findings, samples=samples, vacuous=(st['reach'] == 0 and not findings))


def replay(f):
    import os
    import tempfile
    cell, inp = f["cell"], f["inputs"]
    A = aud.real_audit()
    RU = loader.real_module("shangrla.raire.raire_utils")
    if cell["kind"] == "readers":
        choice = [tuple(c) for c in inp["choice"]]
        lines, rows = _file(cell, choice)
        d = tempfile.mkdtemp(prefix="c14-")
        try:
            p = os.path.join(d, "f.raire")
            open(p, "w").write("\n".join(lines) + "\n")
            cvrs, _ = A.CVR.from_raire(rows)
            contests, gen = RU.load_contests_from_raire(p)
            audit_side = {c.id: c.votes for c in cvrs}
            bad = set(audit_side) != set(gen)
            for bid, cons in gen.items():
                for cid, ballot in cons.items():
                    a = audit_side.get(bid, {}).get(cid)
                    if a is None or {k: v - 1 for k, v in a.items()} != dict(ballot):
                        bad = True
            return dict(reproduced=bool(bad), detail=f"audit {audit_side} generator {gen}")
        except Exception as e:      # noqa
            return dict(reproduced=True, detail=f"raised {e!r}")
        finally:
            import shutil
            shutil.rmtree(d, ignore_errors=True)
    cands, rk = cell["cands"], inp["ranking"]
    try:
        gen = RU.NEBAssertion("c", cell["winner"], cell["loser"]) if cell["type"] == "NEB" else RU.NENAssertion("c", cell["winner"], cell["loser"], list(cell["elim"]))
        gb = {"c": {c: i for i, c in enumerate(rk)}}
        w, l = gen.is_vote_for_winner(gb), gen.is_vote_for_loser(gb)
        con = A.Contest(id="c", name="c", choice_function="IRV", n_winners=1, candidates=cands, winner=[cell["winner"]], cards=10)
        js = [{"winner": cell["winner"], "loser": cell["loser"], "assertion_type": "WINNER_ONLY" if cell["type"] == "NEB" else "IRV_ELIMINATION",
               "already_eliminated": "" if cell["type"] == "NEB" else list(cell["elim"])}]
        asn = list(A.Assertion.make_assertions_from_json(con, cands, js).values())[0]
        val = asn.assorter.assort(A.CVR(id=1, votes={"c": {c: i + 1 for i, c in enumerate(rk)}}))
    except Exception as e:      # noqa
        return dict(reproduced=True, detail=f"raised {e!r}")
    bad = (val != (w - l + 1) / 2) or w not in (0, 1) or l not in (0, 1) or (w == 1 and l == 1)
    return dict(reproduced=bool(bad), detail=f"ranking {rk}: assorter {val}, generator (w, l) = ({w}, {l})")
