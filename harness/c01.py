"""C01 - risk limit: p-values are sequentially valid under every null population.

L (lemma layer, all populations, histories up to n draws, N concrete or symbolic): the solver discharges, for the real code,
   L2  the alternative / bet used at step j is admissible on every null-possible regular history: m_j <= eta_j <= u, 0 <= lam_j <= 1/m_j;
   L3  (code independent) each published factor is affine and non-decreasing in x, non-negative on [0,u] and equals 1 at x = m_j;
   L4  the code's one-step factor equals the published factor; with the products cut at cumprod the reported entry is
       >= min(1, 1/T_j) on null-possible histories, = 1 from the first irregular null mean on, and overall p >= min(history).
   L1  (predictability of eta_j / lam_j) is property C05 and is not repeated here.
   L2-L4 + Ville's inequality (trusted) give the risk limit for every N and every null population / law.
D (direct layer): N = 2, population (a, b) symbolic with a + b <= 2t, both orderings executed symbolically; the solver looks for a
   population and parameters with  min(p_1, p_2) < 1/2  or  max(p_1, p_2) < 1  (an alpha at which the exact probability exceeds alpha).
A failing lemma is not itself a violation: its model seeds an exhaustive enumeration of orderings (or IID sequences) of small null
populations on the REAL code; only a confirmed probability excess is reported.
"""
import itertools
import math
from fractions import Fraction as F

import z3

from symx import core, merge, npmodel, norm
from symx.core import SV, SB, model_value
from symx.ev import EV, And, Or, Not, _b, R, in_unit, ev_min
from . import nnm, c12

PROPERTY = "C01"
META = dict(
    files=nnm.FILES,
    functions=["NonnegMean.alpha_mart", "betting_mart", "kaplan_kolmogorov", "kaplan_markov", "kaplan_wald", "wald_sprt", "sjm",
               "fixed_alternative_mean", "shrink_trunc", "optimal_comparison", "fixed_bet", "agrapa", "welford_mean_var"],
    explanation=__doc__,
    bounds={"quick": {"lemma layer": "n <= 3, N in {n, n+3, 50, inf} and symbolic N >= n (n <= 2), ut in plur/super/cmp10", "direct layer": "N = 2 continuous; N = 3 lattice populations {0, u/2, u} with u = 1, symbolic parameters and alpha (not kaplan_kolmogorov / optimal_comparison); IID laws on lattice atoms, n = 2, 3 draws (shrink_trunc / agrapa: thorough tier, n = 2)"},
            "thorough": {"lemma layer": "n <= 4, N grid + symbolic N (n <= 3), all ut", "direct layer": "N = 2 continuous, every ut (two draws: not shrink_trunc / optimal_comparison, whose queries stay undecided); lattice populations N = 3 with u in {1, 3/4} (not shrink_trunc), N = 4 for the fixed bet"}},
    outside=["histories longer than n", "floating-point rounding", "Ville's inequality and 'affine => E f(X) = f(E X)' (not mechanised)",
             "direct layer beyond N = 2 (continuous N = 3 was probed: most queries unknown)"],
    assumptions=["parameter ranges as C11; wald_sprt alternative eta in (t,u)",
                 "a failing lemma is reported only if exhaustive enumeration on the real code confirms a probability excess"],
    trusted=["Ville's inequality", "exact sparse-polynomial normaliser", "float model = exact reals + IEEE special values"],
)


DIRECT_QUICK_N2 = ("betting_mart/fixed_bet", "kaplan_kolmogorov")
DIRECT_UNDECIDED_N2 = ("alpha_mart/shrink_trunc", "alpha_mart/optimal_comparison", "alpha_mart/fixed_alternative_mean")


def cells(tier):
    out = []
    ns = [2, 3] if tier == "quick" else [2, 3, 4]
    for m in nnm.METHODS:
        for n in ns:
            grid = nnm.n_grid(m, n)
            Ns = [N for N in ([n, n + 3, 50, "inf"] if tier == "quick" else grid) if N in grid]
            if "inf" not in grid or m[0] in ("alpha_mart", "betting_mart", "wald_sprt", "kaplan_kolmogorov"):
                if n <= (2 if (tier == "quick" or m[2] == "agrapa") else 3):
                    Ns = Ns + ["sym"]
            for N in Ns:
                for ut in nnm.ut_grid(m, tier):
                    if tier != "quick" and n == 4 and (N not in (4, "inf") or ut not in ("plur", "cmp10")):
                        continue        # four-draw histories: a sub-grid (each cell costs minutes)
                    fixed = {"d": 100 if n % 2 else 1} if m[2] == "shrink_trunc" else {}
                    if m[2] == "shrink_trunc" and (tier == "quick" or N == "sym") and N != "inf":
                        fixed["f"] = 0
                    out.append(dict(kind="lemma", method=list(m), n=n, N=N, ut=ut, ro=True, fixed=fixed))
    for m in nnm.METHODS:
        if m[0] in ("kaplan_markov", "kaplan_wald"):
            continue        # defined for sampling with replacement only
        for ut in nnm.ut_grid(m, tier):
            for n in (1, 2):
                if n == 2 and tier == "quick" and nnm.method_id(m) not in DIRECT_QUICK_N2:
                    continue      # decided only with the thorough tier's time limit (measured: 25-90 s per query)
                if n == 2 and nnm.method_id(m) in DIRECT_UNDECIDED_N2:
                    continue      # measured: undecided after 90-270 s; not part of the claim
                fixed = {"d": 1} if m[2] == "shrink_trunc" else {}
                out.append(dict(kind="direct", method=list(m), n=n, N=2, ut=ut, ro=True, fixed=fixed))
    for fam in ("alpha", "betting", "kk", "km", "kw"):
        out.append(dict(kind="generic", family=fam))
    # direct layer on lattice populations: every ordering of a concrete null population is executed with the tuning parameters and
    # alpha symbolic; the exact number of orderings with a p-value <= alpha is compared with alpha * N!
    # (measured: with u = 1 or 3/4 these queries decide in seconds; with the comparison bounds u = 20/19, ... and for
    #  kaplan_kolmogorov most stay undecided at 90 s, so those are not part of the claim)
    for m in nnm.METHODS:
        if m[0] in ("kaplan_markov", "kaplan_wald", "kaplan_kolmogorov") or m[2] == "optimal_comparison":
            continue
        if tier == "quick" and m[2] in ("shrink_trunc", "agrapa"):
            continue        # 15-35 s per query on an idle machine: thorough tier only
        if m[2] == "shrink_trunc":
            continue        # measured: one of four N = 3 queries and most N = 4 queries undecided
        for N in ((3,) if tier == "quick" else (3, 4)):
            if N == 4 and m[2] != "fixed_bet":
                continue    # measured: N = 4 decides only for the fixed bet (the others: 2-6 of 7-9 queries undecided at 240 s)
            for ut in (["plur"] if tier == "quick" else (["plur", "super"] if N == 3 else ["plur"])):
                fixed = {"d": 1, "f": 0} if m[2] == "shrink_trunc" else {}
                for pop in lattice_pops(N, ut):
                    out.append(dict(kind="lattice", method=list(m), n=N, N=N, ut=ut, ro=True, fixed=fixed, pop=[str(v) for v in pop]))
    # the same for independent draws (N = inf): laws on lattice atoms with rational weights and mean <= t
    for m in nnm.METHODS:
        if m[0] == "kaplan_kolmogorov" or m[2] == "optimal_comparison":
            continue
        if m[2] in ("shrink_trunc", "agrapa") and tier == "quick":
            continue
        for law in IID_LAWS:
            for n in ((2, 3) if m[2] not in ("shrink_trunc", "agrapa") else (2,)):      # (n = 3 for the variance rules: undecided at 540 s, not claimed)
                fixed = {"d": 1, "f": 0} if m[2] == "shrink_trunc" else {}
                out.append(dict(kind="iid", method=list(m), n=n, N="inf", ut="plur", ro=True, fixed=fixed, law=law))
    return out


# (atoms as multiples of u, weights): all have mean <= t = u/2
IID_LAWS = [dict(atoms=["0", "1"], weights=["1/2", "1/2"]), dict(atoms=["0", "1/2", "1"], weights=["1/4", "1/2", "1/4"]),
            dict(atoms=["0", "1"], weights=["3/4", "1/4"]), dict(atoms=["1/4", "3/4"], weights=["1/2", "1/2"])]


def lattice_pops(N, ut):
    u, t = nnm.UT[ut]
    vals = [F(0), u / 2, u] if u <= 1 else [F(0), F(1, 2) * u / (2 - 0) if False else u / 4, u / 2, u]
    out = []
    for comb in itertools.combinations_with_replacement(vals, N):
        if sum(comb) <= N * t and len(set(comb)) > 1:
            out.append(comb)
    return out


# ---------------------------------------------------------------------------------------------
def _generic(cell, stats):
    """L3: properties of the published factors, every symbol free"""
    ex = core.Explorer(stats=stats)
    findings, samples = [], []

    def harness(ex):
        x, x2, m, u, eta, lam, g, t = (z3.Real(v) for v in ("x", "x2", "m", "u", "eta", "lam", "g", "t"))
        fam = cell["family"]
        if fam == "alpha":
            ex.assume(z3.And(0 < m, m < u, m <= eta, eta <= u))
            f = lambda z: (z * eta / m + (u - z) * (u - eta) / (u - m)) / u
            at = m
        elif fam == "betting":
            ex.assume(z3.And(0 < m, m <= u, 0 <= lam, lam * m <= 1))
            f = lambda z: 1 + lam * (z - m)
            at = m
        elif fam == "kk":      # z = x + g against the null mean m of the shifted population
            ex.assume(z3.And(m > 0, g >= 0))
            f = lambda z: (z + g) / m
            at = m - g
        elif fam == "km":      # Kaplan-Markov: 1/p-factor (x+g)/(t+g)
            ex.assume(z3.And(t > 0, g >= 0))
            f = lambda z: (z + g) / (t + g)
            at = t
        else:
            ex.assume(z3.And(t > 0, g >= 0, g <= 1))
            f = lambda z: (1 - g) * z / t + g
            at = t
        ex.assume(z3.And(x >= 0, x2 >= 0))
        if fam in ("alpha", "betting"):
            ex.assume(z3.And(x <= u, x2 <= u))
        w = z3.Real("w")
        ex.assume(z3.And(w >= 0, w <= 1))
        for name, claim in (("factor equals 1 at the null mean", f(at) == 1),
                            ("factor is non-negative on the support", f(x) >= 0),
                            ("factor is non-decreasing", z3.Implies(x <= x2, f(x) <= f(x2))),
                            ("factor is affine (midpoint-convex and -concave for every weight)",
                             f(w * x + (1 - w) * x2) == w * f(x) + (1 - w) * f(x2))):
            r, mdl = ex.prove(claim)
            if r == 'sat':
                findings.append(dict(clause=f"generic {fam}: {name}", cell=cell, inputs={str(d): str(mdl[d]) for d in mdl.decls()}))
        samples.append(dict(cell=f"generic factor lemma {fam}", note="all symbols free"))
    ex.run(harness)
    return findings, samples, {'reach': 1}


def _lemma(cell, mode, stats):
    ex = core.Explorer(stats=stats)
    findings, samples = [], []
    st = {'reach': 0, 'open': 0}
    test, kind, rule = cell["method"]
    n = cell["n"]

    def harness(ex):
        inst = nnm.build(ex, cell)
        u, t = R(inst.u), R(inst.t)
        regs = nnm.regular_conds(inst)
        k = nnm.split_by_first_irregular(ex, regs)
        try:
            etas, lams = c12.rule_values(inst)
            if mode == "abstract":
                cut = c12.DefCut(inst, k)
            else:
                cut = nnm.Cut(inst, "record")
            with cut:
                p, hist = merge.merged_call(inst.T.test, inst.x)
        except Exception as e:      # noqa
            r, m = ex.witness()
            if r == 'sat':
                findings.append(dict(clause="exception", cell=cell, inputs=nnm.model_inputs(m, inst), observed=repr(e), lemma=True))
            elif r != 'unsat':
                ex.stats.inconclusive += 1
            return
        st['reach'] += 1
        hs = [EV.of(h) for h in hist]
        spec, ms = c12.spec_factors(inst, etas, lams)
        xs = [nnm.xr(x) for x in inst.xs]
        Ssum = [sum(xs[:j], z3.RealVal(0)) for j in range(n + 1)]
        finite = inst.Nz is not None
        if test == "kaplan_kolmogorov":
            g = inst.params["g"]
            Nt = z3.ToReal(inst.Nz) * t
            nullposs = [Ssum[j] <= Nt for j in range(n + 1)]
        elif finite and test in ("alpha_mart", "betting_mart", "wald_sprt"):
            Nt = z3.ToReal(inst.Nz) * t
            nullposs = [Ssum[j] <= Nt for j in range(n + 1)]
        else:
            nullposs = [z3.BoolVal(True)] * (n + 1)
        claims = []
        # L2 admissibility on regular null-possible positions (positions < k are regular on this path)
        for j in range(k):
            if etas is not None:
                lower = ms[j] <= etas[j]
                if rule == "shrink_trunc":
                    # the 2-ulp sliver below u is the recorded C13 finding; alpha_mart displays 1 there and the next null mean
                    # exceeds u unless u - x_j <= (N-j+1)(u - m_j), which bounds the factor by (N-j+1) eps: excluded from L2
                    lower = z3.Implies(ms[j] <= u * R(1 - 2 * F(2) ** -52), lower)
                claims.append((f"L2 m_j <= eta_j <= u at j={j + 1}", "bool", z3.And(lower, etas[j] <= u), j))
            if lams is not None:
                claims.append((f"L2 0 <= lam_j <= 1/m_j at j={j + 1}", "bool", z3.And(lams[j] >= 0, lams[j] * ms[j] <= 1), j))
        # L4 factor identity and reporting
        if mode == "abstract":
            if cut.first is None:
                st['open'] += 1
            else:
                arg, T = cut.first
                for j in range(k):
                    claims.append((f"L4 factor[{j + 1}] equals the published factor", "eq", (EV.of(arg.a[j]).v, spec[j]), j))
                for j in range(n):
                    if j < k:
                        Tj = EV.of(T.a[j])
                        lower = ev_min(Tj, 1) if test == "kaplan_markov" else ev_min(1, EV.of(1) / Tj)
                        claims.append((f"L4 history[{j + 1}] >= min(1, 1/T_j) on null-possible histories", "bool",
                                       z3.Implies(nullposs[j + 1], _b(And(Not(hs[j].nan), (hs[j] >= lower).e))), j))
                    elif test in ("alpha_mart", "betting_mart", "wald_sprt", "kaplan_kolmogorov"):
                        # from the first irregular null mean on the martingale is frozen: the entry may not fall below the bound at k
                        if k == 0:
                            frozen = EV.of(1)
                        else:
                            Tk = EV.of(T.a[k - 1])
                            frozen = ev_min(1, EV.of(1) / Tk)
                        claims.append((f"L4 history[{j + 1}] >= frozen bound after the first irregular null mean (null-possible histories)", "bool",
                                       z3.Implies(nullposs[j + 1], _b(And(Not(hs[j].nan), (hs[j] >= frozen).e))), j))
        else:
            Tacc = None
            for j in range(k):
                Tacc = spec[j] if Tacc is None else Tacc * spec[j]
                Tj = EV(Tacc)
                lower = ev_min(Tj, 1) if test == "kaplan_markov" else ev_min(1, EV.of(1) / Tj)
                claims.append((f"L4 history[{j + 1}] >= min(1, 1/prod published factors) on null-possible histories", "bool",
                               z3.Implies(nullposs[j + 1], _b(And(Not(hs[j].nan), (hs[j] >= lower).e))), j))
            frozen = EV.of(1) if Tacc is None else ev_min(1, EV.of(1) / EV(Tacc))
            for j in range(k, n):
                if test in ("alpha_mart", "betting_mart", "wald_sprt", "kaplan_kolmogorov"):
                    claims.append((f"L4 history[{j + 1}] >= frozen bound after the first irregular null mean (null-possible histories)", "bool",
                                   z3.Implies(nullposs[j + 1], _b(And(Not(hs[j].nan), (hs[j] >= frozen).e))), j))
        pe = EV.of(p)
        mn = EV.of(npmodel.min(npmodel.Arr(hs)))
        claims.append(("L4 overall p >= min(history)", "bool", _b(And(Not(pe.nan), (pe >= mn).e)), n - 1))
        for name, kd, payload, j in claims:
            if kd == "eq":
                r, mdl = c12.equal_terms(ex, payload[0], payload[1])
            elif mode == "abstract" and (name.startswith("L4 history") or name.startswith("L4 overall")):
                before = (ex.stats.inconclusive, ex.stats.sat, ex.stats.obligations)
                r, mdl = ex.prove(payload, timeout_ms=8000)
                if r != 'unsat':
                    ex.stats.inconclusive, ex.stats.sat, ex.stats.obligations = before
                    st['open'] += 1
                    continue
            else:
                r, mdl = ex.prove(payload)
            if r == 'sat':
                findings.append(dict(clause=name, cell=cell, inputs=nnm.model_inputs(mdl, inst), lemma=True, j=j + 1))
        if not samples:
            r, mdl = ex.witness(timeout_ms=5000)
            if r == 'sat':
                samples.append(dict(cell="lemma " + nnm.method_id(cell["method"]) + f" n={n} N={cell['N']} {cell['ut']} first_irregular={k + 1 if k < n else None}",
                                    stage=mode, reachable_with=nnm.model_inputs(mdl, inst)))
    ex.run(harness)
    return findings, samples, st


def _direct(cell, stats):
    """N = 2: both orderings of a symbolic null population"""
    ex = core.Explorer(stats=stats)
    findings, samples = [], []
    st = {'reach': 0}
    n = cell["n"]

    def harness(ex):
        inst = nnm.build(ex, dict(cell, n=2))
        a, b = inst.xs
        t = R(inst.t)
        ex.assume(a + b <= 2 * t)
        ex.assume(a <= b)       # symmetry
        try:
            pa = merge.merged_call(inst.T.test, npmodel.Arr([EV(a), EV(b)][:n]))
            pb = merge.merged_call(inst.T.test, npmodel.Arr([EV(b), EV(a)][:n]))
        except Exception as e:      # noqa
            r, m = ex.witness()
            if r == 'sat':
                findings.append(dict(clause="exception", cell=cell, inputs=nnm.model_inputs(m, inst), observed=repr(e)))
            elif r != 'unsat':
                ex.stats.inconclusive += 1
            return
        st['reach'] += 1

        def pmin(res):
            p, hist = res
            return EV.of(npmodel.min(npmodel.Arr([EV.of(p)] + [EV.of(h) for h in hist])))
        m1, m2 = pmin(pa), pmin(pb)
        for nm_, ok in (("no NaN", And(Not(m1.nan), Not(m2.nan))),
                        ("ordering (a,b) does not reject at alpha < 1/2", Not((m1 < F(1, 2)).e)),
                        ("ordering (b,a) does not reject at alpha < 1/2", Not((m2 < F(1, 2)).e)),
                        ("the two orderings do not both reject at alpha < 1", Not(And((m1 < 1).e, (m2 < 1).e)))):
            r, mdl = ex.prove(_b(ok), timeout_ms=40000)
            if r == 'sat':
                findings.append(dict(clause="exact probability of p <= alpha exceeds alpha for a population of size 2: " + nm_, cell=cell,
                                     inputs=nnm.model_inputs(mdl, inst)))
        if not samples:
            r, mdl = ex.witness(timeout_ms=5000)
            if r == 'sat':
                samples.append(dict(cell="direct " + nnm.method_id(cell["method"]) + f" n={n} N=2 {cell['ut']}", reachable_with=nnm.model_inputs(mdl, inst)))
    ex.run(harness)
    return findings, samples, st


def _lattice(cell, stats):
    ex = core.Explorer(stats=stats)
    findings, samples = [], []
    st = {'reach': 0}
    N = cell["N"]
    pop = [F(v) for v in cell["pop"]]

    def harness(ex):
        inst = nnm.build(ex, cell)
        from collections import Counter
        seqs = Counter(itertools.permutations(pop))
        alpha = z3.Real("alpha")
        ex.assume(z3.And(alpha > 0, alpha < 1))
        terms = []
        try:
            for seq, w in seqs.items():
                p, hist = merge.merged_call(inst.T.test, npmodel.Arr(list(seq)))
                pm = EV.of(npmodel.min(npmodel.Arr([EV.of(p)] + [EV.of(h) for h in hist])))
                terms.append((seq, w, pm))
        except Exception as e:      # noqa
            r, m = ex.witness()
            if r == 'sat':
                d = nnm.model_inputs(m, inst)
                d["x"] = list(pop)
                findings.append(dict(clause="exception", cell=cell, inputs=d, observed=repr(e)))
            elif r != 'unsat':
                ex.stats.inconclusive += 1
            return
        st['reach'] += 1
        total = math.factorial(N)
        count = z3.Sum([z3.If(_b(Or(pm.nan, (pm <= EV(alpha)).e)), w, 0) for seq, w, pm in terms])
        r, mdl = ex.prove(z3.ToReal(count) <= alpha * total, timeout_ms=60000)
        if r == 'sat':
            d = nnm.model_inputs(mdl, inst)
            d["x"] = list(pop)
            d["alpha"] = model_value(mdl, alpha)
            findings.append(dict(clause="exact probability over all orderings that the p-value is <= alpha exceeds alpha (lattice population)", cell=cell, inputs=d))
        if not samples:
            r, mdl = ex.witness(timeout_ms=3000)
            if r == 'sat':
                d = nnm.model_inputs(mdl, inst)
                d["x"] = [str(v) for v in pop]
                samples.append(dict(cell="lattice " + nnm.method_id(cell["method"]) + f" N={N} {cell['ut']} population {[str(v) for v in pop]}", orderings=len(terms),
                                    reachable_with={k: v for k, v in d.items() if k != 'x'}))
    ex.run(harness)
    return findings, samples, st


def _iid(cell, stats):
    ex = core.Explorer(stats=stats)
    findings, samples = [], []
    st = {'reach': 0}
    n = cell["n"]
    u, t = nnm.UT[cell["ut"]]
    atoms = [F(a) * u for a in cell["law"]["atoms"]]
    wts = [F(w) for w in cell["law"]["weights"]]

    def harness(ex):
        inst = nnm.build(ex, cell)
        alpha = z3.Real("alpha")
        ex.assume(z3.And(alpha > 0, alpha < 1))
        terms = []
        try:
            for seq in itertools.product(range(len(atoms)), repeat=n):
                pr = F(1)
                for i in seq:
                    pr *= wts[i]
                p, hist = merge.merged_call(inst.T.test, npmodel.Arr([atoms[i] for i in seq]))
                pm = EV.of(npmodel.min(npmodel.Arr([EV.of(p)] + [EV.of(h) for h in hist])))
                terms.append((pr, pm))
        except Exception as e:      # noqa
            r, m = ex.witness()
            if r == 'sat':
                d = nnm.model_inputs(m, inst)
                d["x"] = list(atoms)
                findings.append(dict(clause="exception", cell=cell, inputs=d, observed=repr(e)))
            elif r != 'unsat':
                ex.stats.inconclusive += 1
            return
        st['reach'] += 1
        prob = z3.Sum([z3.If(_b(Or(pm.nan, (pm <= EV(alpha)).e)), R(pr), 0) for pr, pm in terms])
        r, mdl = ex.prove(prob <= alpha, timeout_ms=60000)
        if r == 'sat':
            d = nnm.model_inputs(mdl, inst)
            d["x"] = list(atoms)
            d["alpha"] = model_value(mdl, alpha)
            findings.append(dict(clause="exact probability over all IID sequences that the p-value is <= alpha exceeds alpha", cell=cell, inputs=d))
        if not samples:
            r, mdl = ex.witness(timeout_ms=3000)
            if r == 'sat':
                d = nnm.model_inputs(mdl, inst)
                samples.append(dict(cell="iid " + nnm.method_id(cell["method"]) + f" n={n} law {cell['law']}", sequences=len(terms),
                                    reachable_with={k: v for k, v in d.items() if k != 'x'}))
    ex.run(harness)
    return findings, samples, st


def run_cell(cell):
    stats = core.Stats()
    notes = []
    if cell["kind"] == "iid":
        findings, samples, st = _iid(cell, stats)
    elif cell["kind"] == "lattice":
        findings, samples, st = _lattice(cell, stats)
    elif cell["kind"] == "generic":
        findings, samples, st = _generic(cell, stats)
    elif cell["kind"] == "direct":
        findings, samples, st = _direct(cell, stats)
    else:
        findings, samples, st = _lemma(cell, "abstract", stats)
        if st['open']:
            f2, s2, st2 = _lemma(cell, "exact", stats)
            findings = findings + [f for f in f2 if f["clause"].startswith("L4 history") or f["clause"].startswith("L4 overall")]
            samples = samples or s2
            notes.append(f"exact stage used for {nnm.method_id(cell['method'])} n={cell['n']} N={cell['N']} {cell['ut']}")
    # failing lemmas: confirm on the real code by exhaustive enumeration, here in the worker
    out = []
    unconfirmed = 0
    for f in findings:
        if f.get("lemma"):
            rp = replay(f)
            if rp["reproduced"]:
                f["replay"] = rp
                out.append(f)
            else:
                unconfirmed += 1
                notes.append(f"unconfirmed lemma failure: {f['clause']} {nnm.method_id(cell['method'])} N={cell['N']} {cell['ut']} inputs={ {k: str(v) for k, v in f['inputs'].items()} }: {rp['detail'][:200]}")
        else:
            out.append(f)
    d = stats.as_dict()
    d['unconfirmed_lemma_failures'] = unconfirmed
    return dict(stats=d, findings=out, samples=samples, notes=notes, vacuous=(st['reach'] == 0 and not findings))


# ---------------------------------------------------------------------------------------------
# confirmation on the real code: exact probability by enumeration
def _pmin(T, x):
    import numpy as np
    with np.errstate(all="ignore"):
        p, hist = T.test(np.array(x, dtype=float))
    vals = [float(p)] + [float(h) for h in np.asarray(hist, dtype=float)]
    if any(math.isnan(v) for v in vals):
        return -1.0         # a NaN p-value can never be compared with alpha: treat as the worst case
    return min(vals)


def excess_finite(cell, inp, pop, n):
    """exact P(min p <= a) over all orderings (first n draws) of a finite population; returns (a, prob) of the worst excess or None"""
    N = len(pop)
    c = dict(cell, N=N)
    T, _ = nnm.real_instance(c, inp)
    seen = {}
    for perm in set(itertools.permutations(pop, n)):
        # multiplicity of this ordered n-prefix among all N!/(N-n)! ordered selections
        seen[perm] = _pmin(T, list(perm))
    # probability of each distinct ordered prefix: count selections
    from collections import Counter
    cnt = Counter(itertools.permutations(range(N), n))
    total = 0
    weights = Counter()
    for idx in cnt:
        weights[tuple(pop[i] for i in idx)] += 1
        total += 1
    worst = None
    for a in sorted(set(seen.values())):
        if a >= 1:
            continue
        prob = F(sum(w for pr, w in weights.items() if seen[pr] <= a), total)
        aa = max(a, 0.0)
        if prob > F(aa) + F(1, 10 ** 9) and (worst is None or prob - F(aa) > worst[2]):
            worst = (a, prob, prob - F(aa))
    return worst


def excess_iid(cell, inp, atoms, weights, n):
    T, _ = nnm.real_instance(cell, inp)
    res = {}
    for seq in itertools.product(range(len(atoms)), repeat=n):
        pr = F(1)
        for i in seq:
            pr *= weights[i]
        res[seq] = (pr, _pmin(T, [atoms[i] for i in seq]))
    worst = None
    for a in sorted(set(v for _, v in res.values())):
        if a >= 1:
            continue
        prob = sum(pr for pr, v in res.values() if v <= a)
        aa = max(a, 0.0)
        if prob > F(aa) + F(1, 10 ** 9) and (worst is None or prob - F(aa) > worst[2]):
            worst = (a, prob, prob - F(aa))
    return worst


def replay(f):
    cell = f["cell"]
    inp = dict(f["inputs"])
    u, t = (F(v) for v in nnm.UT[cell["ut"]])
    xs = [F(str(v)) if not isinstance(v, F) else v for v in inp["x"]]
    xs = [F(float(v)) for v in xs]         # the values the real code will see
    if cell["kind"] == "iid":
        atoms = [float(F(a) * u) for a in cell["law"]["atoms"]]
        w = excess_iid(cell, inp, atoms, [F(x) for x in cell["law"]["weights"]], cell["n"])
        if w:
            return dict(reproduced=True, detail=f"IID law atoms={atoms} weights={cell['law']['weights']} n={cell['n']}: P(p <= {w[0]!r}) = {float(w[1])}")
        return dict(reproduced=False, detail="no probability excess over the IID sequences")
    if cell["kind"] == "lattice":
        w = excess_finite(cell, inp, [float(v) for v in xs], cell["N"])
        if w:
            return dict(reproduced=True, detail=f"population {[float(v) for v in xs]}: P(p <= {w[0]!r}) = {float(w[1])} over all orderings")
        return dict(reproduced=False, detail="no probability excess over the orderings of the lattice population")
    if cell["kind"] == "direct":
        if sum(xs) > 2 * t:
            return dict(reproduced=False, detail="population mean exceeds t after rounding to floats")
        w = excess_finite(cell, inp, [float(v) for v in xs], cell["n"])
        if w:
            return dict(reproduced=True, detail=f"population {[float(v) for v in xs]}: P(p <= {w[0]!r}) = {float(w[1])} over the orderings")
        return dict(reproduced=False, detail="no probability excess over the two orderings")
    if cell["kind"] == "generic":
        return dict(reproduced=True, detail="generic factor lemma fails (code independent): harness/oracle error")
    # lemma failure: search small null populations containing the failing history as a prefix
    j = f.get("j", len(xs))
    prefix = xs[:j]
    tried = 0
    if cell["N"] == "inf":
        # IID laws: atoms = prefix values (+0), weights chosen so that the mean is <= t
        atoms = sorted(set(prefix) | {F(0)})
        for extra0 in (0, 1, 2, 4, 8):
            cnts = [1 + (extra0 if a == 0 else 0) for a in atoms]
            tot = sum(cnts)
            wts = [F(c, tot) for c in cnts]
            if sum(a * w for a, w in zip(atoms, wts)) > t:
                continue
            for n in range(max(1, j), min(j + 2, 5) + 1):
                tried += 1
                w = excess_iid(cell, inp, [float(a) for a in atoms], wts, n)
                if w:
                    return dict(reproduced=True, detail=f"IID law atoms={[float(a) for a in atoms]} weights={[str(x) for x in wts]} n={n}: "
                                                        f"P(p <= {w[0]!r}) = {float(w[1])}")
        return dict(reproduced=False, detail=f"no probability excess found in {tried} IID laws built from the failing history")
    Ns = [int(inp["N"])] if cell["N"] == "sym" else [int(cell["N"])]
    Ns = [N for N in Ns if N <= 7] or [max(len(prefix) + 1, 4), max(len(prefix) + 2, 5)]
    fills = [F(0), u / 2, u, t]
    for N in Ns:
        if N < len(prefix):
            continue
        rest = N - len(prefix)
        for comp in itertools.combinations_with_replacement(fills, rest):
            pop = prefix + list(comp)
            if sum(pop) > N * t:
                continue
            for n in sorted({min(N, max(j, 1)), min(N, j + 1), N}):
                tried += 1
                if tried > 60:
                    break
                w = excess_finite(cell, inp, [float(v) for v in pop], n)
                if w:
                    return dict(reproduced=True, detail=f"population {[float(v) for v in pop]} (N={N}), first {n} draws: "
                                                        f"P(p <= {w[0]!r}) = {float(w[1])} over all orderings")
    return dict(reproduced=False, detail=f"no probability excess found in {tried} small null populations containing the failing history")
