"""C15 - RAIRE's assertion set is the least difficult sufficient set."""
from . import raire_h

PROPERTY = "C15"
META = dict(
    files=raire_h.FILES,
    functions=raire_h.FUNCS,
    explanation="Same symbolic execution of compute_raire_assertions as C04 (agap = 0). On every path returning assertions, with D the largest "
                "returned difficulty, the solver shows that the true assertions with difficulty strictly below D cannot exclude every "
                "alternative winner (difficulty of an arbitrary assertion = the shipped function tabulated over its possible tallies); that the "
                "returned set is itself sufficient; and that the difficulty each returned assertion carries is the shipped function of its own "
                "tallies and the contest's ballot total (cells with two informal ballots: total above the number of CVRs).",
    bounds={"quick": {"candidates": 3, "ballots": "2, 3", "hint": "none, one order"}, "thorough": {"candidates": 3, "ballots": "2, 3, 4; 4 candidates x 2 ballots; 4 candidates x 2 weighted ballot types (1..2) with hint [C,A,D,B]; 2-3 ballot types with symbolic multiplicities 1..3", "hint": "none and every order"}},
    outside=["more ballots/candidates than the bound", "agap > 0"],
    assumptions=["ballots are duplicate-free partial rankings", "the difficulty function is the shipped cp_estimate / bp_estimate"],
    trusted=["symx core, merge", "oracle formulas"],
)


def cells(tier):
    return raire_h.cells_for(tier, "C15")


def run_cell(cell):
    return raire_h.run_cell(cell, {"C15"})


def replay(f):
    return raire_h.replay(f, {"C15"})
