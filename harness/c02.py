"""C02 - assorter means exceed 1/2 exactly when the reported winners really won."""
import itertools
from fractions import Fraction as F

import z3

from symx import core, npmodel
from symx.core import SB, SV, model_value
from symx.ev import EV, And, Or, Not, _b, R
from . import aud

PROPERTY = "C02"
KNOWN_13B = "C02-tally-drops-overvotes"
META = dict(
    files=["shangrla/core/Audit.py"],
    functions=["Assertion.make_plurality_assertions", "Assertion.make_supermajority_assertion", "Assorter.assort", "Assorter.mean",
               "CVR.get_vote_for", "CVR.has_one_vote", "CVR.as_vote", "Assertion.find_margin_from_tally", "Contest.tally", "Contest.find_margins_from_tally"],
    explanation="B cards x 3 candidates: per card 'lists the contest', per candidate 'key present' and the mark are symbolic (marks as "
                "booleans, as integers >= 0, or as the literals \"\"/\"marked\"); share_to_win is a symbolic real in (0,1). The solver decides "
                "(i) all winner-v-loser assorter means > 1/2 iff every winner has strictly more votes than every loser (k = 1, 2 winners, "
                "style on and off); (ii) super-majority: mean > 1/2 iff winner's valid votes > f * valid votes; (iii) 0 <= assort <= "
                "upper_bound per card; (iv) the margin from Contest.tally + find_margin_from_tally equals 2*mean - 1 over the same cards. Also the "
                "other construction routes of the super-majority assertion (share taken from the contest; make_all_assertions) and two contests "
                "tallied together in both orders (marks in one contest leave the other contest's tally alone).",
    bounds={"quick": {"cards": "3 (boolean marks), 2 (integer / string marks)", "candidates": 3, "winner sets": "k = 1, 2", "encodings": "bool, int, literal strings on one card"},
            "thorough": {"cards": "4 (boolean), 3 (integer / string)", "candidates": 3, "encodings": "bool, int, literal strings on one card"}},
    outside=["more cards/candidates than the bound (the statements are sums over cards)", "string encodings other than \"\" and \"marked\""],
    assumptions=["candidate keys on a card are among the contest's candidates; keys can be absent on the first card only", "Contest.cards = number of cards the mean is taken over"],
    trusted=["symx numpy/builtins model"],
)
CANDS = ["A", "B", "C"]
JC = ["X", "Y"]


def cells(tier):
    out = []
    B = 3 if tier == "quick" else 4
    for kind in ("bool", "int", "str"):
        b = B if kind == "bool" else B - 1
        for winners in (["A"], ["A", "B"]):
            for style in (True, False):
                out.append(dict(kind="plurality", enc=kind, B=b, winners=winners, style=style))
        for style in (True, False):
            out.append(dict(kind="supermajority", enc=kind, B=b, style=style))
    # other construction routes of the super-majority assertion (share taken from the contest; make_all_assertions)
    for route in ("noarg", "all"):
        out.append(dict(kind="supermajority", enc="bool", B=2 if tier == "quick" else 3, style=True, route=route))
    # two contests tallied together: what a card shows in one contest must not affect the other contest's tally
    for order in (["J", "K"], ["K", "J"]):
        out.append(dict(kind="two_contests", enc="bool", B=2 if tier == "quick" else 3, style=True, order=order))
    return out


def _cards(ex, cell, A):
    # candidate keys may be absent on card 0 only (absent and falsy marks are read the same way; this bounds the forks of dict iteration)
    # enc 'str': the literal encodings "" / "marked" on card 0 (chosen by forks), booleans elsewhere
    cards = [aud.Card("c", i, "K", CANDS, (cell["enc"] if (cell["enc"] != "str" or i == 0) else "bool"), ex, allow_missing_keys=(i == 0))
             for i in range(cell["B"])]
    if cell["kind"] == "two_contests":
        # each card may also list contest J (candidates X, Y; vote for one)
        other = [aud.Card("j", i, "J", JC, "bool", ex, allow_missing_keys=False) for i in range(cell["B"])]
        for cd, o in zip(cards, other):
            cd.other = o
            cd.votes = aud.PresDict({"J": o.lists, "K": cd.lists}, {"J": o.votes.inner["J"], "K": cd.votes.inner["K"]})
    cvrs = [A.CVR(id=i, votes=cd.votes) for i, cd in enumerate(cards)]
    return cards, cvrs


def _inputs(m, cards):
    out = []
    for cd in cards:
        d = cd.concrete(m, CANDS)
        if hasattr(cd, "other"):
            d = dict(cd.other.concrete(m, JC), **d)
        out.append(d)
    return dict(cards=out)


def run_cell(cell):
    ex = core.Explorer()
    findings, samples = [], []
    st = {'reach': 0}
    A = aud.sym_audit()
    style = cell["style"]

    def count(conds):
        return z3.Sum([z3.If(c, 1, 0) for c in conds])

    def harness(ex):
        cards, cvrs = _cards(ex, cell, A)
        B = cell["B"]
        extra = {}
        try:
            conJ = None
            if cell["kind"] in ("plurality", "two_contests"):
                winners = cell.get("winners", ["A"])
                losers = [c for c in CANDS if c not in winners]
                con = A.Contest(id="K", name="K", choice_function="PLURALITY", n_winners=len(winners), candidates=CANDS, winner=winners,
                                audit_type="POLLING", use_style=style, cards=B)
                asns = A.Assertion.make_plurality_assertions(con, winner=winners, loser=losers)
                if cell["kind"] == "two_contests":
                    conJ = A.Contest(id="J", name="J", choice_function="PLURALITY", n_winners=1, candidates=JC, winner=["X"],
                                     audit_type="POLLING", use_style=style, cards=B)
                    conJ.assertions = A.Assertion.make_plurality_assertions(conJ, winner=["X"], loser=["Y"])
            else:
                f = z3.Real("share")
                ex.assume(z3.And(f > 0, f < 1))
                extra["share"] = f
                winners, losers = ["A"], ["B", "C"]
                con = A.Contest(id="K", name="K", choice_function="SUPERMAJORITY", n_winners=1, candidates=CANDS, winner=["A"],
                                share_to_win=EV(f), audit_type="POLLING", use_style=style, cards=B)
                route = cell.get("route", "arg")
                if route == "arg":
                    asns = A.Assertion.make_supermajority_assertion(con, share_to_win=EV(f), winner="A", loser=["B", "C"])
                elif route == "noarg":
                    asns = A.Assertion.make_supermajority_assertion(con, winner="A", loser=["B", "C"])
                else:
                    A.Assertion.make_all_assertions({"K": con})
                    asns = con.assertions
            con.assertions = asns
            from symx import merge
            for a in asns.values():      # per-card assorter values are merged into one term (forks inside do not multiply across cards)
                a.assorter.assort = merge.merged(a.assorter.assort)
            means = {k: a.assorter.mean(cvrs, use_style=style) for k, a in asns.items()}
            vals = {k: [(a.assorter.assort(c), a.assorter.upper_bound) for c in cvrs] for k, a in asns.items()}
            # margin from the tally over the same cards
            ncount = count([cd.lists for cd in cards]) if style else z3.IntVal(B)
            con.cards = SV(ncount) if style else B
            if conJ is not None:
                conJ.cards = SV(count([cd.other.lists for cd in cards]))
                A.Contest.tally({c: {"J": conJ, "K": con}[c] for c in cell["order"]}, cvrs)
            else:
                A.Contest.tally({"K": con}, cvrs)          # enforce_rules=True (the default)
            con.find_margins_from_tally()
            margins = {k: a.margin for k, a in asns.items()}
        except core.PathAbort:
            raise
        except Exception as e:      # noqa
            r, m = ex.witness()
            if r == 'sat':
                d = _inputs(m, cards)
                d.update({k: model_value(m, v) for k, v in extra.items()})
                findings.append(dict(clause="exception", cell=cell, inputs=d, observed=repr(e)))
            elif r != 'unsat':
                ex.stats.inconclusive += 1
            return
        st['reach'] += 1
        V = {c: count([cd.vote(c) for cd in cards]) for c in CANDS}
        nmarks = [count([cd.vote(c) for c in CANDS]) for cd in cards]
        claims = []
        half = EV.of(F(1, 2))
        if cell["kind"] in ("plurality", "two_contests"):
            allgt = And(*[(EV.of(mv) > half).e for mv in means.values()])
            won = z3.And(*[V[w] > V[l] for w in winners for l in losers])
            claims.append(("all assorter means > 1/2 iff every winner has more votes than every loser", _b(allgt) == won, None))
        else:
            valid = [z3.And(cd.lists, nm == 1) for cd, nm in zip(cards, nmarks)]
            Vw = count([z3.And(v, cd.vote("A")) for v, cd in zip(valid, cards)])
            nvalid = count(valid)
            mv = list(means.values())[0]
            claims.append(("super-majority mean > 1/2 iff the winner's votes exceed the required share of the valid votes",
                           _b((EV.of(mv) > half).e) == (z3.ToReal(Vw) > extra["share"] * z3.ToReal(nvalid)), None))
        for k, lst in vals.items():
            for i, (v, ub) in enumerate(lst):
                v, ub = EV.of(v), EV.of(ub)
                claims.append((f"0 <= assort(card {i}) <= upper bound [{k}]", _b(And(v.fin(), v.v >= 0, v.v <= ub.v)), None))
        overvoted = z3.Or(*[z3.And(cd.lists, nm > len(winners)) for cd, nm in zip(cards, nmarks)])
        for k in asns:
            mg, mn = EV.of(margins[k]), EV.of(means[k])
            # (tolerance: concrete sub-computations of a path run in double precision inside the model as they do in the code)
            tol = R(F(1, 10 ** 9)) * (1 + z3.If(mg.v >= 0, mg.v, -mg.v))
            eq = Or(And(mg.nan, mn.nan), And(Not(mg.nan), Not(mn.nan), mg.v - (2 * mn.v - 1) <= tol, (2 * mn.v - 1) - mg.v <= tol))
            anycard = ncount > 0
            if cell["kind"] in ("plurality", "two_contests"):
                # known finding: Contest.tally(enforce_rules=True) drops over-voted cards which the plurality assorter counts
                claims.append((f"margin from tally = 2*mean - 1 [{k}] (no over-voted card)", z3.Implies(z3.And(anycard, z3.Not(overvoted)), _b(eq)), None))
                claims.append((f"margin from tally = 2*mean - 1 [{k}] (some card over-voted)", z3.Implies(z3.And(anycard, overvoted), _b(eq)), KNOWN_13B))
            else:
                claims.append((f"margin from tally = 2*mean - 1 [{k}]", z3.Implies(anycard, _b(eq)), None))
        for name, cl, known in claims:
            r, m = ex.prove(cl)
            if r == 'sat':
                d = _inputs(m, cards)
                d.update({kk: model_value(m, v) for kk, v in extra.items()})
                fd = dict(clause=name, cell=cell, inputs=d)
                if known:
                    fd["known"] = known
                findings.append(fd)
        if not samples:
            r, m = ex.witness(timeout_ms=3000)
            if r == 'sat':
                samples.append(dict(cell=f"{cell['kind']} enc={cell['enc']} B={B} style={style}", reachable_with=_inputs(m, cards)))
    ex.run(harness)
    # one representative per (clause, known) is enough for the report
    seen, out = set(), []
    for f in findings:
        key = (f["clause"], f.get("known"))
        if key in seen and f.get("known"):
            continue
        seen.add(key)
        out.append(f)
    return dict(stats=ex.stats.as_dict(), findings=out, samples=samples, vacuous=(st['reach'] == 0 and not findings))


def replay(f):
    import numpy as np
    A = aud.real_audit()
    cell, inp = f["cell"], f["inputs"]
    style = cell["style"]
    cvrs = [A.CVR(id=i, votes=v) for i, v in enumerate(inp["cards"])]
    B = len(cvrs)
    bad = []
    try:
        conJ = None
        if cell["kind"] in ("plurality", "two_contests"):
            winners = cell.get("winners", ["A"])
            losers = [c for c in CANDS if c not in winners]
            con = A.Contest(id="K", name="K", choice_function="PLURALITY", n_winners=len(winners), candidates=CANDS, winner=winners,
                            audit_type="POLLING", use_style=style, cards=B)
            asns = A.Assertion.make_plurality_assertions(con, winner=winners, loser=losers)
            if cell["kind"] == "two_contests":
                conJ = A.Contest(id="J", name="J", choice_function="PLURALITY", n_winners=1, candidates=JC, winner=["X"],
                                 audit_type="POLLING", use_style=style, cards=B)
                conJ.assertions = A.Assertion.make_plurality_assertions(conJ, winner=["X"], loser=["Y"])
        else:
            fshare = float(F(str(inp["share"])))
            winners, losers = ["A"], ["B", "C"]
            con = A.Contest(id="K", name="K", choice_function="SUPERMAJORITY", n_winners=1, candidates=CANDS, winner=["A"],
                            share_to_win=fshare, audit_type="POLLING", use_style=style, cards=B)
            route = cell.get("route", "arg")
            if route == "arg":
                asns = A.Assertion.make_supermajority_assertion(con, share_to_win=fshare, winner="A", loser=["B", "C"])
            elif route == "noarg":
                asns = A.Assertion.make_supermajority_assertion(con, winner="A", loser=["B", "C"])
            else:
                A.Assertion.make_all_assertions({"K": con})
                asns = con.assertions
        con.assertions = asns
        listed = [c for c in cvrs if "K" in c.votes]
        pop = listed if style else cvrs
        with np.errstate(all="ignore"):
            means = {k: a.assorter.mean(cvrs, use_style=style) for k, a in asns.items()}
        truth = lambda c, cand: "K" in c.votes and cand in c.votes["K"] and bool(c.votes["K"][cand])
        V = {cand: sum(truth(c, cand) for c in cvrs) for cand in CANDS}
        if cell["kind"] in ("plurality", "two_contests"):
            allgt = all((not np.isnan(mv)) and mv > 0.5 for mv in means.values())
            won = all(V[w] > V[l] for w in winners for l in losers)
            if allgt != won:
                bad.append(f"all means > 1/2 is {allgt} but winners beat losers is {won}; tallies {V}, means {means}")
        else:
            valid = [c for c in listed if sum(truth(c, cand) for cand in CANDS) == 1]
            Vw = sum(truth(c, "A") for c in valid)
            mv = list(means.values())[0]
            lhs = (not np.isnan(mv)) and F(float(mv)) > F(1, 2)
            # exact comparison from the float share
            rhs = F(Vw) > F(fshare) * len(valid)
            exact_mean = None
            if pop:
                exact_mean = (F(Vw) / (2 * F(fshare)) + F(len(pop) - len(valid), 2)) / len(pop)
            if exact_mean is not None and abs(exact_mean - F(1, 2)) > F(1, 10 ** 9) and lhs != rhs:
                bad.append(f"mean {mv!r} > 1/2 is {lhs} but winner votes {Vw} > {fshare} * {len(valid)} is {rhs}")
        for k, a in asns.items():
            for i, c in enumerate(cvrs):
                v = a.assorter.assort(c)
                if not (0 <= v <= a.assorter.upper_bound):
                    bad.append(f"assort(card {i}) = {v!r} outside [0, {a.assorter.upper_bound}]")
        if pop:
            con.cards = len(pop)
            if conJ is not None:
                conJ.cards = max(1, sum("J" in c.votes for c in cvrs))
                A.Contest.tally({c: {"J": conJ, "K": con}[c] for c in cell["order"]}, cvrs)
            else:
                A.Contest.tally({"K": con}, cvrs)
            con.find_margins_from_tally()
            for k, a in asns.items():
                if not abs(a.margin - (2 * means[k] - 1)) <= 1e-9 * (1 + abs(a.margin)):
                    bad.append(f"[{k}] margin from tally {a.margin!r} but 2*mean-1 = {2 * means[k] - 1!r}")
    except Exception as e:      # noqa
        return dict(reproduced=True, detail=f"raised {e!r}")
    return dict(reproduced=bool(bad), detail="; ".join(bad[:3]) or "held")
