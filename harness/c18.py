"""C18 - merging records for one card loses nothing and keeps its flags meaningful."""
import itertools
from fractions import Fraction as F

import z3

from symx import core
from symx.core import SB, SV, model_value, concretize_int
from . import aud

PROPERTY = "C18"
META = dict(
    files=["shangrla/core/Audit.py"],
    functions=["CVR.merge_cvrs", "CVR.from_raire", "CVR.from_vote"],
    explanation="merge_cvrs is executed symbolically on K records for every identifier pattern (set partition) and tally-pool labelling "
                "(grid), with symbolic phantom/pool flags and symbolic 'lists this contest' bits; per path the result is compared with the "
                "specification: one record per identifier in first-appearance order, contests = union, the last record listing a contest "
                "supplies its votes (object identity), phantom = AND, pool is a true/false value = OR, tally pool common or ValueError; "
                "cells where two records of different cards hold the same votes dict object (merging one card must not change the other). "
                "from_raire is executed on files whose contest/ballot-id/ranking per row are chosen by the solver (forked).",
    bounds={"quick": {"records": [2, 3], "contests": 2, "raire": "1 header + 3 ballot rows, 2 contests, 2 ids, rankings over 2 candidates"},
            "thorough": {"records": [2, 3, 4], "contests": 2, "raire": "2 headers + 4 rows, 3 ids"}},
    outside=["more records than the bound", "CSV quoting (rows are supplied split, as from_raire documents)"],
    assumptions=["flags are booleans", "tally pools are None or hashable labels (grid: None, 'P', 'Q'; for K <= 3 also the falsy labels 0 and '')"],
    trusted=["symx builtins model"],
)
POOLS = [None, "P", "Q"]
FALSY = [0, ""]


def partitions(k):
    """identifier patterns as restricted-growth strings"""
    def rec(prefix, mx):
        if len(prefix) == k:
            yield tuple(prefix)
            return
        for v in range(mx + 2):
            yield from rec(prefix + [v], max(mx, v))
    return list(rec([0], 0)) if k else [()]


def cells(tier):
    out = []
    for K in ([2, 3] if tier == "quick" else [2, 3, 4]):
        for ids in partitions(K):
            if len(set(ids)) == K and K > 2:
                pools_grid = [tuple([None] * K)]
            else:
                pools_grid = list(itertools.product(POOLS, repeat=K)) if K <= 3 else list(itertools.product([None, "P"], repeat=K)) + [("P", "Q", None, "Q")]
            if not (len(set(ids)) == K and K > 2) and K <= 3:
                # labels that are not None but falsy (batch index 0, empty string): "no pool" must be tested with `is None`
                for f in FALSY:
                    pools_grid += [t for t in itertools.product([None, f, "P"], repeat=K) if f in t]
            for pools in pools_grid:
                out.append(dict(kind="merge", K=K, ids=list(ids), pools=list(pools)))
    # two records of different cards holding the same votes dict object (one ballot-style dict): merging one card must not change the other
    for ids, share in (([0, 1, 0], [0, 1]), ([0, 0, 1], [0, 2]), ([0, 1, 1], [0, 1])):
        out.append(dict(kind="merge", K=3, ids=ids, pools=[None, None, None], share=share))
    for pat in ([[0, 1, 0], [0, 0, 1], [1, 0, 0]] if tier == "quick" else [[0, 1, 0, 1], [0, 0, 1, 1], [1, 0, 0, 1]]):
        out.append(dict(kind="raire", contests=pat, nids=2 if tier == "quick" else 3, headers=1 if tier == "quick" else 2))
    return out


def _merge(cell, stats):
    ex = core.Explorer(stats=stats)
    findings, samples = [], []
    st = {'reach': 0}
    A = aud.sym_audit()
    K, ids, pools = cell["K"], cell["ids"], cell["pools"]
    CONS = ["c1", "c2"]

    def harness(ex):
        ph = [z3.Bool(f"phantom{i}") for i in range(K)]
        po = [z3.Bool(f"pool{i}") for i in range(K)]
        has = [[z3.Bool(f"has{i}_{c}") for c in CONS] for i in range(K)]
        vdicts = [{c: {"tag": (i, c), f"only{i}": True} for c in CONS} for i in range(K)]      # every record marks its own candidate
        share = cell.get("share")
        if share:      # record share[1] holds the very dict object of record share[0]
            has[share[1]] = has[share[0]]
        vobjs = [aud.PresDict({c: has[i][k] for k, c in enumerate(CONS)}, vdicts[i]) for i in range(K)]
        if share:
            vobjs[share[1]] = vobjs[share[0]]
        recs = [A.CVR(id=f"id{ids[i]}", votes=vobjs[i],
                      phantom=SB(ph[i]), pool=SB(po[i]), tally_pool=pools[i]) for i in range(K)]
        inputs = lambda m: dict(ids=ids, pools=pools, phantom=[bool(model_value(m, x)) for x in ph], pool=[bool(model_value(m, x)) for x in po],
                                lists=[[bool(model_value(m, has[i][k])) for k in range(2)] for i in range(K)])
        # expected ValueError: two different non-None labels within one identifier, seen in order
        conflict = False
        for g in set(ids):
            cur = None
            for i in range(K):
                if ids[i] == g:
                    if cur is None:
                        cur = pools[i]
                    elif pools[i] is not None and pools[i] != cur:
                        conflict = True
        raised = None
        try:
            out = A.CVR.merge_cvrs(recs)
        except ValueError as e:
            raised = e
        except core.PathAbort:
            raise
        except Exception as e:      # noqa
            r, m = ex.witness()
            if r == 'sat':
                findings.append(dict(clause="exception", cell=cell, inputs=inputs(m), observed=repr(e)))
            elif r != 'unsat':
                ex.stats.inconclusive += 1
            return
        st['reach'] += 1
        claims = []
        if raised is not None or conflict:
            claims.append(("ValueError exactly when two records of one card carry different tally pools", (raised is not None) == conflict))
        if raised is None and not conflict:
            first = []
            for g in ids:
                if g not in first:
                    first.append(g)
            claims.append(("one record per identifier in first-appearance order", [r.id for r in out] == [f"id{g}" for g in first]))
            if [r.id for r in out] == [f"id{g}" for g in first]:
                for r, g in zip(out, first):
                    members = [i for i in range(K) if ids[i] == g]
                    for k, c in enumerate(CONS):
                        listed = z3.Or(*[has[i][k] for i in members])
                        present = (c in r.votes)
                        present = present if isinstance(present, bool) else bool(present)
                        claims.append((f"id{g}: contest {c} present iff some record lists it", listed if present else z3.Not(listed)))
                        if present and not share:
                            src = r.votes[c].get("tag") if isinstance(r.votes[c], dict) else None
                            # the last member listing c supplies the votes
                            want = [z3.And(has[i][k], *[z3.Not(has[j][k]) for j in members if j > i]) for i in members]
                            ok = z3.Or(*[w for i, w in zip(members, want) if src == (i, c)]) if src is not None else z3.BoolVal(False)
                            claims.append((f"id{g}: contest {c} carries the votes of the last record listing it", ok))
                            claims.append((f"id{g}: contest {c} carries exactly one record's votes (no marks left over from an earlier record)",
                                           src is not None and set(r.votes[c].keys()) == {"tag", f"only{src[0]}"}))
                    pz = r.phantom.e if isinstance(r.phantom, SB) else (z3.BoolVal(r.phantom) if isinstance(r.phantom, bool) else None)
                    claims.append((f"id{g}: phantom only if all were", (pz == z3.And(*[ph[i] for i in members])) if pz is not None else False))
                    qz = r.pool.e if isinstance(r.pool, SB) else (z3.BoolVal(r.pool) if isinstance(r.pool, bool) else None)
                    claims.append((f"id{g}: pool is a true/false value", qz is not None))
                    if qz is not None:
                        claims.append((f"id{g}: pooled exactly when at least one was", qz == z3.Or(*[po[i] for i in members])))
                    labels = [pools[i] for i in members if pools[i] is not None]
                    claims.append((f"id{g}: keeps the common tally pool", r.tally_pool == (labels[0] if labels else None)))
        for name, cl in claims:
            if isinstance(cl, bool):
                ex.stats.obligations += 1
                if cl:
                    ex.stats.discharged += 1
                else:
                    r_, m = ex.witness()
                    if r_ == 'sat':
                        ex.stats.sat += 1
                        findings.append(dict(clause=name, cell=cell, inputs=inputs(m)))
                continue
            r_, m = ex.prove(cl)
            if r_ == 'sat':
                findings.append(dict(clause=name, cell=cell, inputs=inputs(m)))
        if not samples:
            r_, m = ex.witness(timeout_ms=2000)
            if r_ == 'sat':
                samples.append(dict(cell=f"merge K={K} ids={ids} pools={pools}", reachable_with=inputs(m)))
    ex.run(harness)
    return findings, samples, st


RANKINGS = [[], ["A"], ["B"], ["A", "B"], ["B", "A"]]


def _raire_rows(cell, choice):
    """rows of a RAIRE file for a concrete choice [(id, ranking index) per row]"""
    nh = cell["headers"]
    rows = [[str(nh)]] + [["Contest", f"k{h}", "2", "A", "B"] for h in range(nh)]
    for con, (bid, rk) in zip(cell["contests"], choice):
        rows.append([f"k{con % nh if nh > 1 else 0}" if False else f"k{con}", f"b{bid}"] + RANKINGS[rk])
    return rows


def _raire_spec(cell, choice):
    cards = {}
    order = []
    for con, (bid, rk) in zip(cell["contests"], choice):
        b = f"b{bid}"
        if b not in cards:
            cards[b] = {}
            order.append(b)
        cards[b][f"k{con}"] = {cand: pos + 1 for pos, cand in enumerate(RANKINGS[rk])}
    return order, cards


def _raire(cell, stats):
    ex = core.Explorer(stats=stats)
    findings, samples = [], []
    st = {'reach': 0}
    A = aud.sym_audit()
    nrows = len(cell["contests"])

    def harness(ex):
        choice = []
        for r in range(nrows):
            bid = z3.Int(f"id{r}")
            rk = z3.Int(f"rank{r}")
            ex.assume(z3.And(bid >= 0, bid < cell["nids"], rk >= 0, rk < len(RANKINGS)))
            choice.append((concretize_int(SV(bid)), concretize_int(SV(rk))))
        rows = _raire_rows(cell, choice)
        try:
            cvrs, nread = A.CVR.from_raire(rows)
        except core.PathAbort:
            raise
        except Exception as e:      # noqa
            findings.append(dict(clause="exception", cell=cell, inputs=dict(choice=choice), observed=repr(e)))
            return
        st['reach'] += 1
        order, cards = _raire_spec(cell, choice)
        ok = [c.id for c in cvrs] == order and all(dict(c.votes) == cards[c.id] for c in cvrs if c.id in cards)
        ex.stats.obligations += 1
        if ok:
            ex.stats.discharged += 1
        else:
            ex.stats.sat += 1
            findings.append(dict(clause="from_raire: rank k for the k-th listed candidate, headers skipped, one merged record per card", cell=cell,
                                 inputs=dict(choice=[list(c) for c in choice]), observed=[(c.id, dict(c.votes)) for c in cvrs]))
        if len(samples) < 1:
            samples.append(dict(cell=f"raire rows={rows}", parsed=[(c.id, dict(c.votes)) for c in cvrs]))
    ex.run(harness)
    return findings, samples, st


def run_cell(cell):
    stats = core.Stats()
    findings, samples, st = (_merge if cell["kind"] == "merge" else _raire)(cell, stats)
    return dict(stats=stats.as_dict(), findings=findings, samples=samples, vacuous=(st['reach'] == 0 and not findings))


def replay(f):
    A = aud.real_audit()
    cell, inp = f["cell"], f["inputs"]
    if cell["kind"] == "raire":
        choice = [tuple(c) for c in inp["choice"]]
        rows = _raire_rows(cell, choice)
        try:
            cvrs, _ = A.CVR.from_raire(rows)
        except Exception as e:      # noqa
            return dict(reproduced=True, detail=f"from_raire raised {e!r} on {rows}")
        order, cards = _raire_spec(cell, choice)
        got = [(c.id, dict(c.votes)) for c in cvrs]
        ok = [c.id for c in cvrs] == order and all(dict(c.votes) == cards[c.id] for c in cvrs)
        return dict(reproduced=not ok, detail=f"rows={rows}: got {got}, expected {[(b, cards[b]) for b in order]}")
    K, ids, pools = cell["K"], cell["ids"], cell["pools"]
    CONS = ["c1", "c2"]
    vobjs = [{c: {"tag": (i, c), f"only{i}": True} for k, c in enumerate(CONS) if inp["lists"][i][k]} for i in range(K)]
    share = cell.get("share")
    if share:
        vobjs[share[1]] = vobjs[share[0]]
    recs = [A.CVR(id=f"id{ids[i]}", votes=vobjs[i],
                  phantom=bool(inp["phantom"][i]), pool=bool(inp["pool"][i]), tally_pool=pools[i]) for i in range(K)]
    conflict = False
    for g in set(ids):
        cur = None
        for i in range(K):
            if ids[i] == g:
                if cur is None:
                    cur = pools[i]
                elif pools[i] is not None and pools[i] != cur:
                    conflict = True
    bad = []
    try:
        out = A.CVR.merge_cvrs(recs)
        if conflict:
            bad.append("no ValueError although two records of one card carry different tally pools")
    except ValueError:
        return dict(reproduced=not conflict, detail="ValueError" + (" (expected)" if conflict else " without a tally-pool conflict"))
    except Exception as e:      # noqa
        return dict(reproduced=True, detail=f"raised {e!r}")
    if not conflict:
        first = []
        for g in ids:
            if g not in first:
                first.append(g)
        if [r.id for r in out] != [f"id{g}" for g in first]:
            bad.append(f"records {[r.id for r in out]}, expected {[f'id{g}' for g in first]}")
        else:
            for r, g in zip(out, first):
                members = [i for i in range(K) if ids[i] == g]
                for k, c in enumerate(CONS):
                    listing = [i for i in members if inp["lists"][i][k]]
                    if (c in r.votes) != bool(listing):
                        bad.append(f"id{g}: contest {c} present={c in r.votes}, listed by {listing}")
                    elif listing and not share and r.votes[c] != {"tag": (listing[-1], c), f"only{listing[-1]}": True}:
                        bad.append(f"id{g}: contest {c} votes {r.votes[c]}, expected those of record {listing[-1]}")
                if r.phantom is not all(inp["phantom"][i] for i in members):
                    bad.append(f"id{g}: phantom={r.phantom!r}")
                if not isinstance(r.pool, bool) or r.pool != any(inp["pool"][i] for i in members):
                    bad.append(f"id{g}: pool={r.pool!r}, expected {any(inp['pool'][i] for i in members)}")
                labels = [pools[i] for i in members if pools[i] is not None]
                if r.tally_pool != (labels[0] if labels else None):
                    bad.append(f"id{g}: tally_pool={r.tally_pool!r}")
    return dict(reproduced=bool(bad), detail="; ".join(bad[:3]) or "held")
