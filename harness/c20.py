"""C20 - the elimination tree shows an unpruned leaf iff the assertions are insufficient."""
import itertools

import z3

from symx import core, loader
from symx.core import SB, SV, model_value

PROPERTY = "C20"
META = dict(
    files=["shangrla/core/IRVVisualisationUtils.py"],
    functions=["buildRemainingTreeAsLists", "treeListToTuple", "buildConfTag"],
    explanation="buildRemainingTreeAsLists is executed on K symbolic assertions: kind (not-eliminated-before / not-eliminated-next), winner, loser "
                "and eliminated set are z3 variables (candidates and sets are duck-typed objects with symbolic equality/membership), proved "
                "flags symbolic; every alternative winner. Per path: the tree has an unpruned leaf iff some complete elimination order ending "
                "in that candidate is contradicted by no assertion (the n!/n orders are written out in z3); every pruned node carries exactly "
                "the assertions contradicting it; treeListToTuple prints the warning exactly on untagged leaves.",
    bounds={"quick": {"candidates": 3, "assertions": "<= 3"}, "thorough": {"candidates": "3 (K <= 4), 4 (K <= 2)"}},
    outside=["more candidates/assertions than the bound", "parseAssertions (JSON layouts)", "svg drawing"],
    assumptions=["documented form of an assertion: winner != loser; a not-eliminated-next assertion's candidate is not in its eliminated set "
                 "and at least one other candidate is still standing", "assertions of one kind are pairwise distinct (tags are positions in the list)"],
    trusted=["symx core", "the duck-typed set/candidate inputs"],
)

_V = None


def viz():
    global _V
    if _V is None:
        _V = loader.Loader().load("shangrla.core.IRVVisualisationUtils")
    return _V


class SymCand:
    def __init__(self, e):
        self.e = e

    def __eq__(self, o):
        if isinstance(o, SymCand):
            return SB(self.e == o.e)
        if isinstance(o, int):
            return SB(self.e == o)
        return NotImplemented

    def __ne__(self, o):
        r = self.__eq__(o)
        return r if r is NotImplemented else ~r
    __hash__ = None

    def __str__(self):
        return "cand"


class FSet:
    """concrete set of candidate numbers with symbolic membership tests / equality against symbolic sets"""

    def __init__(self, items):
        self.s = set(items)

    def __contains__(self, x):
        if isinstance(x, SymCand):
            return bool(SB(z3.Or(*[x.e == i for i in self.s]) if self.s else z3.BoolVal(False)))
        return x in self.s

    def __iter__(self):
        return iter(sorted(self.s))

    def __bool__(self):
        return bool(self.s)

    def __len__(self):
        return len(self.s)

    def copy(self):
        return FSet(self.s)

    def remove(self, x):
        self.s.remove(x)

    def add(self, x):
        self.s.add(x)

    def __eq__(self, o):
        if isinstance(o, SymSet):
            return o == self
        if isinstance(o, FSet):
            return self.s == o.s
        return NotImplemented
    __hash__ = None

    def __repr__(self):
        return repr(self.s)

    def __str__(self):
        return repr(self.s)


class SymSet:
    def __init__(self, bits, cands):
        self.bits, self.cands = bits, cands

    def __eq__(self, o):
        if isinstance(o, SymSet):
            return SB(z3.And(*[self.bits[i] == o.bits[i] for i in self.cands]))
        if isinstance(o, FSet):
            return SB(z3.And(*[(self.bits[i] if i in o.s else z3.Not(self.bits[i])) for i in self.cands]))
        return NotImplemented
    __hash__ = None

    def __bool__(self):
        return bool(SB(z3.Or(*[self.bits[i] for i in self.cands])))

    def __str__(self):
        return "set"


def cells(tier):
    out = []
    grid = [(3, 1), (3, 2), (3, 3)] if tier == "quick" else [(3, 2), (3, 3), (3, 4), (4, 2)]
    for NC, K in grid:
        for alt in range(NC):
            for kinds in itertools.product((True, False), repeat=K):      # True = not-eliminated-before
                if list(kinds) != sorted(kinds, reverse=True):
                    continue        # the two lists are separate in the API: order between kinds is irrelevant
                if K >= 3:
                    # partition the work by the first assertion's candidate (the union of the cells is the whole space)
                    for a0 in range(NC):
                        out.append(dict(NC=NC, K=K, alt=alt, kinds=list(kinds), a0=a0))
                else:
                    out.append(dict(NC=NC, K=K, alt=alt, kinds=list(kinds)))
    return out


def run_cell(cell):
    ex = core.Explorer()
    findings, samples = [], []
    st = {'reach': 0}
    V = viz()
    NC, K, alt = cell["NC"], cell["K"], cell["alt"]
    cands = list(range(NC))

    def harness(ex):
        WOL, IRV, asn = [], [], []
        for k in range(K):
            a, b = z3.Int(f"a{k}"), z3.Int(f"b{k}")
            bits = [z3.Bool(f"e{k}_{i}") for i in cands]
            pr = z3.Bool(f"proved{k}")
            neb = cell["kinds"][k]
            ex.assume(z3.And(a >= 0, a < NC))
            if k == 0 and cell.get("a0") is not None:
                ex.assume(a == cell["a0"])
            if neb:
                ex.assume(z3.And(b >= 0, b < NC, a != b))
                WOL.append((SymCand(a), SymCand(b), SB(pr)))        # (loser, winner, proved): `winner` cannot be eliminated before `loser`
            else:
                for i in cands:
                    ex.assume(z3.Implies(a == i, z3.Not(bits[i])))
                ex.assume(z3.Or(*[z3.And(a != i, z3.Not(bits[i])) for i in cands]))      # somebody else is still standing
                IRV.append((SymCand(a), SymSet(bits, cands), SB(pr)))
            asn.append((neb, a, b, bits, pr))
        # assertions of one kind pairwise distinct
        for (k1, x), (k2, y) in itertools.combinations(list(enumerate(asn)), 2):
            if x[0] and y[0]:
                ex.assume(z3.Or(x[1] != y[1], x[2] != y[2]))
            if (not x[0]) and (not y[0]):
                ex.assume(z3.Or(x[1] != y[1], *[x[3][i] != y[3][i] for i in cands]))

        def inputs(m):
            out = []
            for neb, a, b, bits, pr in asn:
                if neb:
                    out.append(dict(kind="NEB", loser=model_value(m, a), winner=model_value(m, b), proved=bool(model_value(m, pr))))
                else:
                    out.append(dict(kind="IRV", cand=model_value(m, a), eliminated=[i for i in cands if bool(model_value(m, bits[i]))],
                                    proved=bool(model_value(m, pr))))
            return dict(assertions=out)
        S = FSet([c for c in cands if c != alt])
        try:
            # a call with a different (empty) assertion set first, as in the replay: results must not carry over between calls
            V.buildRemainingTreeAsLists(alt, FSet([c for c in cands if c != alt]), [], [])
            tree = V.buildRemainingTreeAsLists(alt, S, WOL, IRV)
            rendered = V.treeListToTuple(tree)
        except core.PathAbort:
            raise
        except Exception as e:      # noqa
            r, m = ex.witness()
            if r == 'sat':
                findings.append(dict(clause="exception", cell=cell, inputs=inputs(m), observed=repr(e)))
            elif r != 'unsat':
                ex.stats.inconclusive += 1
            return
        st['reach'] += 1
        nebs = [k for k in range(K) if cell["kinds"][k]]
        irvs = [k for k in range(K) if not cell["kinds"][k]]

        def contradicts_node(k, c, Sset):
            """assertion k contradicts the node: c is eliminated when exactly Sset are still to be eliminated earlier"""
            neb, a, b, bits, pr = asn[k]
            if neb:
                return z3.And(a == c, z3.Or(*[b == i for i in Sset]) if Sset else z3.BoolVal(False))
            return z3.And(a == c, *[(bits[i] if i in Sset else z3.Not(bits[i])) for i in cands])

        claims = []
        leaves = []

        def walk(t, c_path):
            """returns list of (node candidate, remaining set) visited; checks tags"""
            if len(t) == 1:
                node = t[0]
                c = node.cand
                Sset = set(cands) - set(c_path) - {c}
                tagged_neb = [i for i, _ in node.NEBTagList]
                tagged_irv = [i for i, _ in node.IRVTagList]
                pruned = bool(node.NEBTagList or node.IRVTagList)
                leaves.append((c, Sset, pruned))
                for pos, k in enumerate(nebs):
                    want = contradicts_node(k, c, Sset)
                    claims.append((f"node {c} below {c_path}: NEB assertion #{pos} tagged iff it contradicts the node",
                                   want if pos in tagged_neb else z3.Not(want)))
                for pos, k in enumerate(irvs):
                    want = contradicts_node(k, c, Sset)
                    claims.append((f"node {c} below {c_path}: IRV assertion #{pos} tagged iff it contradicts the node",
                                   want if pos in tagged_irv else z3.Not(want)))
                for (i, flag), lst in [((i, f_), "neb") for i, f_ in node.NEBTagList] + [((i, f_), "irv") for i, f_ in node.IRVTagList]:
                    k = (nebs if lst == "neb" else irvs)[i] if i < len(nebs if lst == "neb" else irvs) else None
                    if k is not None:
                        fz = flag.e if isinstance(flag, SB) else z3.BoolVal(bool(flag))
                        claims.append((f"node {c}: tag carries the assertion's own proved flag", fz == asn[k][4]))
                if not pruned and Sset:
                    claims.append((f"node {c} below {c_path}: an untagged node with candidates left is expanded, not returned as a leaf", False))
                return
            c = t[0]
            Sset = set(cands) - set(c_path) - {c}
            # an expanded node must be contradicted by no assertion
            for k in range(K):
                claims.append((f"node {c} below {c_path}: expanded only if no assertion contradicts it", z3.Not(contradicts_node(k, c, Sset))))
            kids = [b[0].cand if len(b) == 1 else b[0] for b in t[1]]
            claims.append((f"node {c} below {c_path}: one child per remaining candidate", sorted(kids) == sorted(Sset)))
            for b in t[1]:
                walk(b, c_path + [c])
        walk(tree, [])
        has_unpruned = any((not pr_) for c, Sset, pr_ in leaves)
        # specification over complete elimination orders (last = alt)
        orders = [p + (alt,) for p in itertools.permutations([c for c in cands if c != alt])]

        def contradicts_order(k, pi):
            neb, a, b, bits, pr = asn[k]
            pos = {c: i for i, c in enumerate(pi)}
            if neb:     # winner b eliminated before loser a
                return z3.Or(*[z3.And(a == x, b == y) for x in cands for y in cands if x != y and pos[y] < pos[x]])
            return z3.Or(*[z3.And(a == pi[r], *[(bits[i] if i in pi[:r] else z3.Not(bits[i])) for i in cands]) for r in range(len(pi))])
        insufficient = z3.Or(*[z3.And(*[z3.Not(contradicts_order(k, pi)) for k in range(K)]) for pi in orders]) if K else z3.BoolVal(True)
        claims.append(("an unpruned leaf is shown iff some elimination order ending in this candidate is contradicted by no assertion",
                       insufficient if has_unpruned else z3.Not(insufficient)))
        marker = "Unpruned leaf" in str(rendered)
        claims.append(("the warning is rendered exactly when an untagged leaf exists", marker == has_unpruned))
        for name, cl in claims:
            if isinstance(cl, bool):
                ex.stats.obligations += 1
                if cl:
                    ex.stats.discharged += 1
                else:
                    r, m = ex.witness()
                    if r == 'sat':
                        ex.stats.sat += 1
                        findings.append(dict(clause=name, cell=cell, inputs=inputs(m)))
                continue
            r, m = ex.prove(cl)
            if r == 'sat':
                findings.append(dict(clause=name, cell=cell, inputs=inputs(m)))
        if not samples and K:
            r, m = ex.witness(timeout_ms=2000)
            if r == 'sat':
                samples.append(dict(cell=f"{NC} candidates, alt winner {alt}, kinds {cell['kinds']}", unpruned_leaf=has_unpruned, reachable_with=inputs(m)))
    ex.run(harness)
    seen, out = set(), []
    for f in findings:
        key = f["clause"].split(":")[-1]
        if key in seen and len(out) > 3:
            continue
        seen.add(key)
        out.append(f)
    return dict(stats=ex.stats.as_dict(), findings=out, samples=samples, vacuous=(st['reach'] == 0 and not findings))


def replay(f):
    """concrete re-run on the real module, twice in a row (a second call must not depend on the first)"""
    import io
    import contextlib
    cell, inp = f["cell"], f["inputs"]
    NC, alt = cell["NC"], cell["alt"]
    cands = list(range(NC))
    import importlib
    import sys
    import types
    for name in ("svgling", "svgling.figure", "colorama"):
        if name not in sys.modules:
            m = types.ModuleType(name)
            m.Caption = m.RowByRow = m.Fore = object
            sys.modules[name] = m
    V = loader.real_module("shangrla.core.IRVVisualisationUtils")
    WOL, IRV = [], []
    for a in inp["assertions"]:
        if a["kind"] == "NEB":
            WOL.append((a["loser"], a["winner"], a["proved"]))
        else:
            IRV.append((a["cand"], set(a["eliminated"]), a["proved"]))
    bad = []
    try:
        with contextlib.redirect_stdout(io.StringIO()):
            # a different assertion set first: results must not carry over between calls
            V.buildRemainingTreeAsLists(alt, set(c for c in cands if c != alt), [], [])
            tree = V.buildRemainingTreeAsLists(alt, set(c for c in cands if c != alt), WOL, IRV)
            rendered = V.treeListToTuple(tree)
    except Exception as e:      # noqa
        return dict(reproduced=True, detail=f"raised {e!r}")

    def contradicts_node(a, c, Sset):
        if a["kind"] == "NEB":
            return a["loser"] == c and a["winner"] in Sset
        return a["cand"] == c and set(a["eliminated"]) == Sset
    leaves = []

    def walk(t, path):
        if len(t) == 1:
            node = t[0]
            c = node.cand
            Sset = set(cands) - set(path) - {c}
            want_n = sorted(i for i, a in enumerate(WOL) if c == a[0] and a[1] in Sset)
            want_i = sorted(i for i, a in enumerate(IRV) if c == a[0] and a[1] == Sset)
            if sorted(i for i, _ in node.NEBTagList) != want_n or sorted(i for i, _ in node.IRVTagList) != want_i:
                bad.append(f"node {c} below {path}: tags NEB {node.NEBTagList} IRV {node.IRVTagList}, expected NEB {want_n} IRV {want_i}")
            pruned = bool(node.NEBTagList or node.IRVTagList)
            if not pruned and Sset:
                bad.append(f"node {c} below {path}: untagged but not expanded")
            leaves.append(pruned)
            return
        c = t[0]
        Sset = set(cands) - set(path) - {c}
        if any(contradicts_node(a, c, Sset) for a in inp["assertions"]):
            bad.append(f"node {c} below {path} expanded although an assertion contradicts it")
        for b in t[1]:
            walk(b, path + [c])
    walk(tree, [])
    has_unpruned = any(not p for p in leaves)
    orders = [p + (alt,) for p in itertools.permutations([c for c in cands if c != alt])]

    def contradicts_order(a, pi):
        pos = {c: i for i, c in enumerate(pi)}
        if a["kind"] == "NEB":
            return pos[a["winner"]] < pos[a["loser"]]
        return any(pi[r] == a["cand"] and set(pi[:r]) == set(a["eliminated"]) for r in range(len(pi)))
    insufficient = any(all(not contradicts_order(a, pi) for a in inp["assertions"]) for pi in orders)
    if has_unpruned != insufficient:
        bad.append(f"unpruned leaf shown: {has_unpruned}; some order contradicted by no assertion: {insufficient}")
    if ("Unpruned leaf" in str(rendered)) != has_unpruned:
        bad.append("warning text does not match the presence of an untagged leaf")
    return dict(reproduced=bool(bad), detail="; ".join(bad[:3]) or "held")
