"""C03 - comparison audits test the right null hypothesis (overstatement reduction)."""
import itertools
from fractions import Fraction as F

import z3

from symx import core, npmodel, merge
from symx.core import SB, SV, model_value
from symx.ev import EV, And, Or, Not, _b, R
from . import aud

PROPERTY = "C03"
META = dict(
    files=["shangrla/core/Audit.py"],
    functions=["CVR.pool_contests", "CVR.add_pool_contests", "Assertion.set_margin_from_cvrs", "Assorter.mean", "Assorter.set_tally_pool_means",
               "Assorter.overstatement", "Assertion.overstatement_assorter", "Assertion.make_plurality_assertions",
               "Assertion.make_supermajority_assertion", "Assertion.make_assertions_from_json", "CVR.rcv_lfunc_wo", "CVR.rcv_votefor_cand"],
    explanation="K card pairs (CVR, MVR): marks, 'lists the contest' on either side, phantom flags on either side are symbolic; tally-pool labels "
                "and the set of pooled pools come from a grid; style on/off; plurality, super-majority (symbolic share) and the two JSON-built "
                "IRV assorters. The identity mean(B) - 1/2 = (2 mean(A) - 1)/(2(2u - v)) is decided in decomposed form: (a) per card "
                "B_i (2 - v/u) = 1 - omega_i/u with the code's own overstatement omega_i and margin v; (b) the linear population identity "
                "v - 2 mean(omega) = 2 mean(A) - 1 over the cards under audit, A = the oracle's reading of the manual records (phantom -> 0; "
                "lacking the contest -> 0 with style, the assorter's non-vote value without); (c) after add_pool_contests every pooled CVR lists "
                "every contest of its pool.",
    bounds={"quick": {"cards": 3, "pools": "2 labels, 3 assignments (one non-contiguous) x 4 pooled subsets", "assorters": "plurality, super-majority with share_to_win in {1/2, 2/3, 2/5}, IRV winner-only, IRV elimination"},
            "thorough": {"cards": 4, "pools": "2 labels, 3 assignments x 4 pooled subsets"}},
    outside=["more cards than the bound", "stratified audits (not implemented upstream)"],
    assumptions=["a phantom CVR carries no marks (the records make_phantoms creates)", "ranks present on an IRV ballot are distinct positive integers",
                 "at least one card is under audit"],
    trusted=["symx numpy/builtins model"],
)
CANDS = ["A", "B", "C"]
ASSORTERS = ["plurality", "supermajority", "irv_wo", "irv_elim"]


def cells(tier):
    K = 3 if tier == "quick" else 4
    assigns = [["P", "P", "Q", "Q"][:K], ["P", "Q", "Q", "P"][:K]] + ([["P", "P", "P", "Q"][:K]] if tier != "quick" else [["P", "Q", "P"]])
    # (the last quick assignment puts the cards of one pool in non-adjacent positions of the list)
    out = []
    for a in ASSORTERS:
        for style in (True, False):
            for pooled in ([], ["P"], ["Q"], ["P", "Q"]):
                for asg in (assigns if pooled else assigns[:1]):
                    if a == "supermajority":
                        # share_to_win from a grid (a symbolic share makes every query non-linear through 1/(2f): measured 70-130 s per cell, some undecided);
                        # C02 and C06 treat the share symbolically
                        for sh in ("1/2", "2/3", "2/5"):
                            out.append(dict(assorter=a, style=style, pooled=pooled, assign=asg, K=K, share=sh))
                    else:
                        out.append(dict(assorter=a, style=style, pooled=pooled, assign=asg, K=K))
    return out


def make_assertion(A, cell, ex, cards_total):
    a = cell["assorter"]
    extra = {}
    if a == "plurality":
        con = A.Contest(id="K", name="K", choice_function="PLURALITY", n_winners=1, candidates=CANDS, winner=["A"],
                        audit_type=("ONEAUDIT" if cell["pooled"] else "CARD_COMPARISON"), use_style=cell["style"], cards=cards_total)
        asn = list(A.Assertion.make_plurality_assertions(con, winner=["A"], loser=["B"]).values())[0]
        spec = lambda cd: (z3.If(cd.vote("A"), 1, 0) - z3.If(cd.vote("B"), 1, 0) + z3.RealVal(1)) / 2
        u = z3.RealVal(1)
    elif a == "supermajority":
        if cell.get("share", "sym") == "sym":
            f = z3.Real("share")
            ex.assume(z3.And(f > 0, f < 1))
            extra["share"] = f
        else:
            f = R(F(cell["share"]))
            extra["share"] = f
        con = A.Contest(id="K", name="K", choice_function="SUPERMAJORITY", n_winners=1, candidates=CANDS, winner=["A"], share_to_win=EV(f),
                        audit_type=("ONEAUDIT" if cell["pooled"] else "CARD_COMPARISON"), use_style=cell["style"], cards=cards_total)
        asn = list(A.Assertion.make_supermajority_assertion(con, share_to_win=EV(f), winner="A", loser=["B", "C"]).values())[0]

        def spec(cd):
            n = z3.Sum([z3.If(cd.vote(c), 1, 0) for c in CANDS])
            return z3.If(n == 1, z3.If(cd.vote("A"), 1 / (2 * f), 0), z3.RealVal(1) / 2)
        u = 1 / (2 * f)
    else:
        con = A.Contest(id="K", name="K", choice_function="IRV", n_winners=1, candidates=CANDS, winner=["A"],
                        audit_type=("ONEAUDIT" if cell["pooled"] else "CARD_COMPARISON"), use_style=cell["style"], cards=cards_total)
        if a == "irv_wo":
            js = [{"winner": "A", "loser": "B", "assertion_type": "WINNER_ONLY", "already_eliminated": ""}]
        else:
            js = [{"winner": "A", "loser": "B", "assertion_type": "IRV_ELIMINATION", "already_eliminated": ["C"]}]
        asn = list(A.Assertion.make_assertions_from_json(con, CANDS, js).values())[0]

        def spec(cd):
            rk = lambda c: cd.val[c].e        # rank (0 = not ranked)
            has = lambda c: cd.vote(c)
            if a == "irv_wo":
                w = z3.And(has("A"), rk("A") == 1)
                l = z3.Or(z3.And(z3.Not(has("A")), has("B")), z3.And(has("A"), has("B"), rk("B") < rk("A")))
            else:   # C eliminated: first among {A, B}
                w = z3.And(has("A"), z3.Or(z3.Not(has("B")), rk("A") < rk("B")))
                l = z3.And(has("B"), z3.Or(z3.Not(has("A")), rk("B") < rk("A")))
            return (z3.If(w, 1, 0) - z3.If(l, 1, 0) + z3.RealVal(1)) / 2
        u = z3.RealVal(1)
    return con, asn, spec, u, extra


def run_cell(cell):
    ex = core.Explorer()
    findings, samples = [], []
    st = {'reach': 0}
    A = aud.sym_audit()
    K, style = cell["K"], cell["style"]
    irv = cell["assorter"].startswith("irv")
    enc = "int" if irv else "bool"

    def harness(ex):
        cc = [aud.Card("cvr", i, "K", CANDS, enc, ex, allow_missing_keys=(i == 0)) for i in range(K)]
        mc = [aud.Card("mvr", i, "K", CANDS, enc, ex, allow_missing_keys=(i == 0)) for i in range(K)]
        cph = [z3.Bool(f"cvr{i}_phantom") for i in range(K)]
        mph = [z3.Bool(f"mvr{i}_phantom") for i in range(K)]
        for i in range(K):
            ex.assume(z3.Implies(cph[i], z3.And(*[z3.Not(cc[i].vote(c)) for c in CANDS])))
            if irv:
                for cards in (cc, mc):
                    vals = [cards[i].val[c].e for c in CANDS]
                    for x, y in itertools.combinations(vals, 2):
                        ex.assume(z3.Or(x == 0, y == 0, x != y))
        pooled = cell["pooled"]
        cvrs = [A.CVR(id=i, votes=cc[i].votes, phantom=SB(cph[i]), tally_pool=cell["assign"][i], pool=(cell["assign"][i] in pooled)) for i in range(K)]
        mvrs = [A.CVR(id=i, votes=mc[i].votes, phantom=SB(mph[i])) for i in range(K)]

        def inputs(m):
            d = dict(cvrs=[dict(votes=cc[i].concrete(m, CANDS), phantom=bool(model_value(m, cph[i]))) for i in range(K)],
                     mvrs=[dict(votes=mc[i].concrete(m, CANDS), phantom=bool(model_value(m, mph[i]))) for i in range(K)])
            d.update({k: model_value(m, v) for k, v in extra.items()})
            return d
        extra = {}
        try:
            con, asn, spec, u, extra = make_assertion(A, cell, ex, K)
            asn.assorter.assort = merge.merged(asn.assorter.assort)
            audit = A.Audit.from_dict({"strata": {"s": {"max_cards": K, "use_style": style}}})
            if pooled:
                tp = A.CVR.pool_contests(cvrs)
                A.CVR.add_pool_contests(cvrs, tp)
            asn.set_margin_from_cvrs(audit, cvrs)
            if pooled:
                asn.assorter.set_tally_pool_means(cvr_list=cvrs, use_style=style)
            audited = [i for i in range(K) if (not style) or cvrs[i].has_contest("K")]
            if not audited:
                return
            om = [merge.merged_call(asn.assorter.overstatement, mvrs[i], cvrs[i], style) for i in audited]
            Bs = [merge.merged_call(asn.overstatement_assorter, mvrs[i], cvrs[i], style) for i in audited]
            v = asn.margin
        except core.PathAbort:
            raise
        except Exception as e:      # noqa
            r, m = ex.witness()
            if r == 'sat':
                findings.append(dict(clause="exception", cell=cell, inputs=inputs(m), observed=repr(e)))
            elif r != 'unsat':
                ex.stats.inconclusive += 1
            return
        st['reach'] += 1
        claims = []
        if pooled:
            for i in range(K):
                if cvrs[i].pool:
                    want = set()
                    for j in range(K):
                        if cvrs[j].pool and cvrs[j].tally_pool == cvrs[i].tally_pool:
                            want |= set(cvrs[j].votes.keys())
                    claims.append((f"pooled CVR {i} lists every contest of its pool", want <= set(cvrs[i].votes.keys())))
        ve = EV.of(v)
        n = len(audited)
        tol = R(F(1, 10 ** 9))
        ub = asn.assorter.upper_bound
        for i, o, Bi in zip(audited, om, Bs):
            o, Bi = EV.of(o), EV.of(Bi)
            want = EV.of((1 - o / ub) / (2 - v / ub))          # the documented formula, written with the same float operations
            same = z3.simplify(Bi.v).eq(z3.simplify(want.v)) and str(Bi.nan) == str(want.nan) and str(Bi.inf) == str(want.inf)
            if same:
                claims.append((f"B_{i} = (1 - omega/u)/(2 - v/u)", True))
            else:
                d = Bi.v * (2 - ve.v / u) - (1 - o.v / u)
                claims.append((f"B_{i} = (1 - omega/u)/(2 - v/u)", _b(And(o.fin(), Bi.fin(), ve.fin(), d <= tol, -d <= tol))))
        # oracle's reading of the manual records
        Aor = []
        for i in audited:
            lacking = z3.Not(mc[i].lists)
            a_spec = spec(mc[i])
            nonvote = z3.RealVal(1) / 2
            if style:
                Aor.append(z3.If(z3.Or(mph[i], lacking), 0, a_spec))
            else:
                Aor.append(z3.If(mph[i], 0, z3.If(lacking, nonvote, a_spec)))
        meanA = z3.Sum(Aor) / n
        meanO = z3.Sum([EV.of(o).v for o in om]) / n
        d = (ve.v - 2 * meanO) - (2 * meanA - 1)
        if cell.get("share") != "sym":
            claims.append(("v - 2 mean(omega) = 2 mean(A) - 1 over the cards under audit", z3.And(d <= tol, -d <= tol)))
        for name, cl in claims:
            if isinstance(cl, bool):
                ex.stats.obligations += 1
                if cl:
                    ex.stats.discharged += 1
                else:
                    r, m = ex.witness()
                    if r == 'sat':
                        ex.stats.sat += 1
                        findings.append(dict(clause=name, cell=cell, inputs=inputs(m)))
                continue
            r, m = ex.prove(cl)
            if r == 'sat':
                findings.append(dict(clause=name, cell=cell, inputs=inputs(m)))
        if not samples:
            r, m = ex.witness(timeout_ms=3000)
            if r == 'sat':
                samples.append(dict(cell=f"{cell['assorter']} style={style} pooled={pooled} assign={cell['assign']}", audited=audited, reachable_with=inputs(m)))
    ex.run(harness)
    seen, out = set(), []
    for f in findings:
        if f["clause"] in seen and len(out) > 3:
            continue
        seen.add(f["clause"])
        out.append(f)
    return dict(stats=ex.stats.as_dict(), findings=out, samples=samples, vacuous=(st['reach'] == 0 and not findings))


def replay(f):
    import numpy as np
    A = aud.real_audit()
    cell, inp = f["cell"], f["inputs"]
    K, style, pooled = cell["K"], cell["style"], cell["pooled"]
    cvrs = [A.CVR(id=i, votes={k: dict(v) for k, v in inp["cvrs"][i]["votes"].items()}, phantom=inp["cvrs"][i]["phantom"],
                  tally_pool=cell["assign"][i], pool=(cell["assign"][i] in pooled)) for i in range(K)]
    mvrs = [A.CVR(id=i, votes={k: dict(v) for k, v in inp["mvrs"][i]["votes"].items()}, phantom=inp["mvrs"][i]["phantom"]) for i in range(K)]
    a = cell["assorter"]
    at = "ONEAUDIT" if pooled else "CARD_COMPARISON"
    try:
        if a == "plurality":
            con = A.Contest(id="K", name="K", choice_function="PLURALITY", n_winners=1, candidates=CANDS, winner=["A"], audit_type=at, use_style=style, cards=K)
            asn = list(A.Assertion.make_plurality_assertions(con, winner=["A"], loser=["B"]).values())[0]
        elif a == "supermajority":
            fs = float(F(str(inp["share"])))
            con = A.Contest(id="K", name="K", choice_function="SUPERMAJORITY", n_winners=1, candidates=CANDS, winner=["A"], share_to_win=fs,
                            audit_type=at, use_style=style, cards=K)
            asn = list(A.Assertion.make_supermajority_assertion(con, share_to_win=fs, winner="A", loser=["B", "C"]).values())[0]
        else:
            con = A.Contest(id="K", name="K", choice_function="IRV", n_winners=1, candidates=CANDS, winner=["A"], audit_type=at, use_style=style, cards=K)
            js = [{"winner": "A", "loser": "B", "assertion_type": "WINNER_ONLY" if a == "irv_wo" else "IRV_ELIMINATION",
                   "already_eliminated": "" if a == "irv_wo" else ["C"]}]
            asn = list(A.Assertion.make_assertions_from_json(con, CANDS, js).values())[0]
        audit = A.Audit.from_dict({"strata": {"s": {"max_cards": K, "use_style": style}}})
        if pooled:
            A.CVR.add_pool_contests(cvrs, A.CVR.pool_contests(cvrs))
        with np.errstate(all="ignore"):
            asn.set_margin_from_cvrs(audit, cvrs)
            if pooled:
                asn.assorter.set_tally_pool_means(cvr_list=cvrs, use_style=style)
            audited = [i for i in range(K) if (not style) or cvrs[i].has_contest("K")]
            if not audited:
                return dict(reproduced=False, detail="no card under audit")
            Bs = [asn.overstatement_assorter(mvrs[i], cvrs[i], use_style=style) for i in audited]
            v, u = asn.margin, asn.assorter.upper_bound
            # the oracle's reading of the manual records uses the real assorter on well-formed records only
            Avals = []
            for i in audited:
                m = mvrs[i]
                if m.phantom or (style and not m.has_contest("K")):
                    Avals.append(0.0)
                elif not m.has_contest("K"):
                    Avals.append(0.5)
                else:
                    Avals.append(float(asn.assorter.assort(m)))
            lhs = float(np.mean(Bs)) - 0.5
            rhs = (2 * float(np.mean(Avals)) - 1) / (2 * (2 * u - v))
    except Exception as e:      # noqa
        return dict(reproduced=True, detail=f"raised {e!r}")
    bad = not abs(lhs - rhs) <= 1e-9 * (1 + abs(rhs))
    return dict(reproduced=bool(bad), detail=f"mean(B)-1/2 = {lhs!r} but (2 mean(A)-1)/(2(2u-v)) = {rhs!r} (v={v!r}, u={u!r})")
